import random, collections
from lib import *
def gen_wellformed(rnd, nch=2, maxt=200, maxn=8, pitches=(58, 64), maxd=60, unit=1):
    """returns list of (ch,p,on,off,vel) non-overlapping per (ch,p), positive duration"""
    notes = []; occ = collections.defaultdict(list)
    for _ in range(rnd.randint(0, maxn)):
        ch = rnd.randrange(nch); p = rnd.randint(*pitches)
        on = rnd.randrange(0, maxt, unit); d = rnd.randrange(unit, maxd + 1, unit)
        if rnd.random() < 0.3 and occ[(ch, p)]:
            on = rnd.choice(occ[(ch, p)])[1]  # abut
        if any(not (on + d <= a or b <= on) for a, b in occ[(ch, p)]): continue
        occ[(ch, p)].append((on, on + d)); notes.append((ch, p, on, on + d, rnd.randint(1, 127)))
    return sorted(notes)
def gen_meta(rnd, maxt=200, unit=1):
    ev = []
    for _ in range(rnd.randint(0, 3)):
        t = rnd.randrange(0, maxt + 1, unit)
        if rnd.random() < 0.5:
            ev.append(("ts", t, rnd.randint(1, 12), rnd.choice([2, 4, 8, 16])))
        else:
            ev.append(("ks", t, rnd.choice(list(Key))))
    # at most one ts and one ks per tick
    seen = set(); out = []
    for e in ev:
        if (e[0], e[1]) in seen: continue
        seen.add((e[0], e[1])); out.append(e)
    return out
def build(rnd, notes, meta=(), route=None, pad=None):
    msgs = []
    for ch, p, on, off, v in notes:
        msgs.append(Message(message_type=MT.NOTE_ON, channel=ch, note=p, velocity=v, time=on))
        msgs.append(Message(message_type=MT.NOTE_OFF, channel=ch, note=p, time=off))
    for e in meta:
        if e[0] == "ts": msgs.append(Message(message_type=MT.TIME_SIGNATURE, channel=0, time=e[1], numerator=e[2], denominator=e[3]))
        else: msgs.append(Message(message_type=MT.KEY_SIGNATURE, channel=0, time=e[1], key=e[2]))
    route = route or rnd.choice(["abs_shuffled", "abs_sorted", "rel"])
    s = Sequence()
    if route == "abs_shuffled":
        rnd.shuffle(msgs)
        # keep OFF before ON of same (ch,pitch) at the same tick (library's tie semantics)
        pos = {}
        for i, m in enumerate(msgs): pos[(m.time, m.channel, m.note, m.message_type)] = i
        for i, m in enumerate(list(msgs)):
            if m.message_type == MT.NOTE_ON:
                j = pos.get((m.time, m.channel, m.note, MT.NOTE_OFF))
                if j is not None and j > pos[(m.time, m.channel, m.note, MT.NOTE_ON)]:
                    i2 = pos[(m.time, m.channel, m.note, MT.NOTE_ON)]
                    msgs[i2], msgs[j] = msgs[j], msgs[i2]
                    pos[(m.time, m.channel, m.note, MT.NOTE_ON)] = j; pos[(m.time, m.channel, m.note, MT.NOTE_OFF)] = i2
        for m in msgs: s.add_absolute_message(m)
    else:
        order = {MT.KEY_SIGNATURE: 0, MT.TIME_SIGNATURE: 1, MT.NOTE_OFF: 2, MT.NOTE_ON: 3}
        msgs.sort(key=lambda m: (m.time, order[m.message_type], m.channel, m.note or 0))
        if route == "abs_sorted":
            for m in msgs: s.add_absolute_message(m)
        else:
            t = 0; rel = []
            for m in msgs:
                if m.time > t: rel.append(Message(message_type=MT.WAIT, time=m.time - t)); t = m.time
                m.time = None; rel.append(m)
            s = Sequence(relative_sequence=RelativeSequence(rel))
    if pad is not None: s.pad(pad)
    return s
def snapshot(seq):
    """canonical content via rel view raw: (notes, anomalies, others, duration)"""
    ev, dur = abs_events(seq)
    n, a = notes_abs(ev)
    others = sorted((t, m.message_type.value, m.channel, m.numerator, m.denominator, m.key.value if m.key else None, m.control, m.program) for t, m in ev if m.message_type not in (MT.NOTE_ON, MT.NOTE_OFF))
    return n, a, others, dur
def sounding(notes):
    s = set()
    for ch, p, on, off, v in notes:
        for t in range(on, off): s.add((ch, p, t))
    return s
