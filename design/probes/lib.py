import logging
logging.disable(logging.CRITICAL)
from scoda.elements.message import Message
from scoda.enumerations.message_type import MessageType as MT
from scoda.sequences.sequence import Sequence
from scoda.sequences.absolute_sequence import AbsoluteSequence
from scoda.sequences.relative_sequence import RelativeSequence
from scoda.elements.bar import Bar
from scoda.misc.music_theory import Key
from scoda.tokenisation.notelike_tokenisation import MultiTrackLargeVocabularyNotelikeTokeniser as Tok

def abs_events(seq):
    """raw absolute events from rel view (independent accumulate)"""
    t = 0; out = []
    for m in seq.rel._messages:
        if m.message_type == MT.WAIT: t += m.time
        else: out.append((t, m))
    return out, t

def notes_abs(msgs):
    """msgs: list of (time, Message). returns list (ch,pitch,on,off,vel), plus anomalies"""
    open_ = {}; notes = []; anomalies = []
    # stable order: at equal tick offs first
    order = sorted(range(len(msgs)), key=lambda i: (msgs[i][0], 0 if msgs[i][1].message_type == MT.NOTE_OFF else 1, i))
    for i in order:
        t, m = msgs[i]
        k = (m.channel, m.note)
        if m.message_type == MT.NOTE_ON:
            if k in open_: anomalies.append(("retrigger", k, t))
            open_.setdefault(k, []).append((t, m.velocity))
        elif m.message_type == MT.NOTE_OFF:
            if k in open_ and open_[k]:
                on, v = open_[k].pop(0)
                if not open_[k]: del open_[k]
                notes.append((m.channel, m.note, on, t, v))
            else: anomalies.append(("orphan_off", k, t))
    for k, l in open_.items():
        for on, v in l: anomalies.append(("unclosed", k, on))
    return sorted(notes), anomalies

def notes_of(seq, view="rel"):
    if view == "rel":
        ev, dur = abs_events(seq)
    else:
        ev = [(m.time, m) for m in seq.abs._messages if m.message_type != MT.INTERNAL]
        dur = seq.abs._messages[-1].time if seq.abs._messages else 0
    n, a = notes_abs(ev)
    return n, a, dur

def mkseq(notes, extra=(), dur=None, channel=0):
    """notes: (pitch,on,dur,vel) ; extra: Message list with time"""
    s = Sequence()
    for p, on, d, v in notes:
        s.add_absolute_message(Message(message_type=MT.NOTE_ON, channel=channel, note=p, velocity=v, time=on))
        s.add_absolute_message(Message(message_type=MT.NOTE_OFF, channel=channel, note=p, time=on + d))
    for m in extra:
        s.add_absolute_message(m)
    if dur is not None:
        s.pad(dur)
    return s
def TS(t, n, d, ch=0): return Message(message_type=MT.TIME_SIGNATURE, channel=ch, time=t, numerator=n, denominator=d)
def KS(t, k, ch=0): return Message(message_type=MT.KEY_SIGNATURE, channel=ch, time=t, key=k)
