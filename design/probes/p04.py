from gen import *
import sys, traceback
from scoda.exceptions.sequence_exception import SequenceException
rnd = random.Random(int(sys.argv[1]) if len(sys.argv) > 1 else 1)
res = collections.Counter(); fails = {}
def fail(k, *info):
    res[k] += 1; fails.setdefault(k, info)
def canon_abs(a):
    ev = sorted((m.time, m.message_type.value, m.channel, m.note, m.velocity, m.numerator, m.denominator, m.key.value if m.key else None) for m in a._messages if m.message_type != MT.INTERNAL)
    dur = max([m.time for m in a._messages], default=0)
    return ev, dur
def canon_rel(r):
    t = 0; ev = []
    for m in r._messages:
        if m.message_type == MT.WAIT: t += m.time
        else: ev.append((t, m.message_type.value, m.channel, m.note, m.velocity, m.numerator, m.denominator, m.key.value if m.key else None))
    return sorted(ev), t
def state(s): return ("A" if not s._abs_stale else "") + ("R" if not s._rel_stale else "")
def peek(s):
    """passive: returns canon of authoritative view(s); checks agreement if both fresh"""
    st = state(s)
    if st == "": return None
    ca = canon_abs(s._abs) if "A" in st else None
    cr = canon_rel(s._rel) if "R" in st else None
    if ca and cr and ca != cr: return ("DIVERGED", ca, cr)
    return ca or cr
def twin(s):
    a = AbsoluteSequence([m.copy() for m in s._abs._messages]) if not s._abs_stale else None
    r = RelativeSequence([m.copy() for m in s._rel._messages]) if not s._rel_stale else None
    return Sequence(a, r)
def rmsg(rnd, t=None):
    k = rnd.random()
    if k < 0.4: m = Message(message_type=MT.NOTE_ON, channel=rnd.randrange(2), note=rnd.randint(60, 62), velocity=rnd.randint(1, 127))
    elif k < 0.8: m = Message(message_type=MT.NOTE_OFF, channel=rnd.randrange(2), note=rnd.randint(60, 62))
    elif k < 0.9: m = Message(message_type=MT.TIME_SIGNATURE, numerator=rnd.randint(2, 5), denominator=4)
    else: m = Message(message_type=MT.KEY_SIGNATURE, key=rnd.choice([Key.C, Key.D_B]))
    m.time = t
    return m
def fresh_seq(rnd):
    return build(rnd, gen_wellformed(rnd, nch=2, maxt=60, maxn=3, pitches=(60, 62), maxd=30), gen_meta(rnd, 60), pad=rnd.choice([None, 80]))
OPS = {}
def op(f): OPS[f.__name__] = f; return f
@op
def add_abs(s, a): s.add_absolute_message(a["m"].copy())
@op
def add_rel(s, a): s.add_relative_message(a["m"].copy(), index=min(a["i"], len(s.rel._messages)) if a["i"] is not None else None)
@op
def concatenate(s, a): s.concatenate([x.copy() for x in a["seqs"]])
@op
def merge(s, a): s.merge([x.copy() for x in a["seqs"]])
@op
def cutoff(s, a): s.cutoff(a["m"], a["r"])
@op
def normalise(s, a): s.normalise()
@op
def ow_abs(s, a): s.overwrite_absolute_messages([m.copy() for m in a["msgs"]])
@op
def ow_rel(s, a): s.overwrite_relative_messages([m.copy() for m in a["msgs"]])
@op
def pad(s, a): s.pad(a["n"])
@op
def set_channel(s, a): s.set_channel(a["c"])
@op
def scale(s, a): s.scale(a["k"], quantise_afterwards=a["q"])
@op
def transpose(s, a): return s.transpose(a["n"])
@op
def quantise(s, a): s.quantise(list(a["steps"]))
@op
def qnl(s, a): s.quantise_note_lengths(list(a["vals"]), do_not_extend=a["dne"])
@op
def qan(s, a): s.quantise_and_normalise()
@op
def it_abs(s, a):
    g = s.messages_abs()
    for i, m in enumerate(g):
        if i in a["edits"]:
            kind, val = a["edits"][i]
            if kind == "note" and m.note is not None: m.note = val
            elif kind == "vel" and m.velocity is not None: m.velocity = val
            elif kind == "chan": m.channel = val % 2
        if a["read"]: _ = s.rel
        if a["brk"] is not None and i >= a["brk"]: break
    g.close()
@op
def it_rel(s, a):
    g = s.messages_rel()
    for i, m in enumerate(g):
        if i in a["edits"]:
            kind, val = a["edits"][i]
            if kind == "note" and m.note is not None: m.note = val
            elif kind == "vel" and m.velocity is not None: m.velocity = val
            elif kind == "chan": m.channel = val % 2
            elif kind == "time" and m.message_type == MT.WAIT: m.time = m.time + val
        if a["read"]: _ = s.abs
        if a["brk"] is not None and i >= a["brk"]: break
    g.close()
@op
def read_abs(s, a): _ = s.abs
@op
def read_rel(s, a): _ = s.rel
@op
def refresh(s, a): s.refresh()
@op
def inval_abs(s, a):
    if not s._rel_stale: s.invalidate_abs()
@op
def inval_rel(s, a):
    if not s._abs_stale: s.invalidate_rel()
@op
def getters(s, a):
    s.get_message_pairings(); s.get_interleaved_message_pairings(); s.get_message_times_of_type([MT.TIME_SIGNATURE]); s.is_empty(); s.is_channel_consistent(); s.to_midi_track(); s.get_sequence_duration_relation(); s.split([a["n"] + 1])
    if s.abs._messages: s.get_sequence_duration()
@op
def copy_replace(s, a): return ("REPLACE", s.copy())
def gen_args(rnd, name):
    if name == "add_abs": return {"m": rmsg(rnd, rnd.randint(0, 90))}
    if name == "add_rel": return {"m": rmsg(rnd) if rnd.random() < .7 else Message(message_type=MT.WAIT, time=rnd.randint(1, 9)), "i": rnd.choice([None, 0, 1, 3, 7])}
    if name in ("concatenate", "merge"): return {"seqs": [fresh_seq(rnd) for _ in range(rnd.randint(0, 2))]}
    if name == "cutoff": m = rnd.randint(1, 30); return {"m": m, "r": rnd.randint(1, m)}
    if name == "ow_abs": return {"msgs": [rmsg(rnd, rnd.randint(0, 60)) for _ in range(rnd.randint(0, 5))]}
    if name == "ow_rel": return {"msgs": [rmsg(rnd) if rnd.random() < .6 else Message(message_type=MT.WAIT, time=rnd.randint(1, 9)) for _ in range(rnd.randint(0, 6))]}
    if name == "pad": return {"n": rnd.randint(0, 150)}
    if name == "set_channel": return {"c": rnd.randrange(3)}
    if name == "scale": return {"k": rnd.randint(1, 3), "q": rnd.random() < .3}
    if name == "transpose": return {"n": rnd.choice([0, 1, -1, 12, 50, -50])}
    if name == "quantise": return {"steps": [rnd.choice([2, 3, 4, 6, 8, 12]) for _ in range(rnd.randint(1, 2))]}
    if name == "qnl": return {"vals": [rnd.choice([2, 4, 6, 12, 24]) for _ in range(rnd.randint(1, 3))], "dne": rnd.random() < .5}
    if name in ("it_abs", "it_rel"): return {"edits": {rnd.randrange(8): rnd.choice([("note", rnd.randint(60, 62)), ("vel", rnd.randint(1, 127)), ("chan", rnd.randrange(2)), ("time", rnd.randint(0, 3))]) for _ in range(rnd.randint(0, 3))}, "read": rnd.random() < .3, "brk": rnd.choice([None, None, 0, 2])}
    if name == "getters": return {"n": rnd.randint(0, 50)}
    return {}
for it in range(int(sys.argv[2]) if len(sys.argv) > 2 else 800):
    s = fresh_seq(rnd)
    if rnd.random() < .5: s.normalise()
    hist = []
    for step in range(rnd.randint(1, 25)):
        name = rnd.choice(list(OPS)); args = gen_args(rnd, name); hist.append((name, state(s)))
        t = twin(s)
        pre = state(s)
        e1 = e2 = None; r1 = r2 = None
        try: r1 = OPS[name](s, args)
        except Exception as e: e1 = e
        try: r2 = OPS[name](t, args)
        except Exception as e: e2 = e
        if (e1 is None) != (e2 is None) or (e1 and type(e1) != type(e2)):
            fail("exc-mismatch:" + name, hist, repr(e1), repr(e2)); break
        if e1 is not None:
            res["op-raised:" + name + ":" + type(e1).__name__] += 1
            fails.setdefault("RAISED:"+name, (hist, "".join(traceback.format_exception(e1))[-900:]))
            if state(s) == "": fail("unreadable-after-exc:" + name, hist)
            break
        if isinstance(r1, tuple) and r1[0] == "REPLACE": s, t = r1[1], r2[1]
        elif r1 != r2: fail("ret-mismatch:" + name, hist, r1, r2); break
        if state(s) == "": fail("unreadable:" + name + ":" + pre, hist); break
        p1 = peek(s)
        if p1 and p1[0] == "DIVERGED": fail("diverged:" + name + ":" + pre, hist, p1); break
        # read both through accessors on copies? passive compare with twin
        p2 = peek(t)
        if p1 != p2: fail("twin-diff:" + name + ":" + pre, hist, p1, p2); break
        # conversions
        try:
            c = twin(s); ca = canon_abs(c.abs); cr = canon_rel(c.rel)
            if ca != cr: fail("conversion:" + name + ":" + state(s), hist, ca, cr); break
        except Exception as e:
            fail("read-exc:" + name, hist, repr(e)); break
    else:
        res["ok"] += 1
print({k: v for k, v in res.items() if not k.startswith("op-raised")}); print({k: v for k, v in res.items() if k.startswith("op-raised")})
for k, v in list(fails.items())[:12]:
    print("==", k)
    for x in v: print("    ", str(x)[:600])
