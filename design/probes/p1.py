import logging
logging.disable(logging.CRITICAL)
from scoda.misc.music_theory import Key, CircleOfFifths, MusicMapping
from scoda.misc.util import *
from scoda.tokenisation.notelike_tokenisation import MultiTrackLargeVocabularyNotelikeTokeniser as T
print("transpose_key C by 0:", Key.transpose_key(Key.C, 0), " by 12:", Key.transpose_key(Key.D_B, 12), "by 1", Key.transpose_key(Key.D_B,1))
for vb in [1,2,3,4,5,8,16,127,128]:
    try:
        print(vb, get_velocity_bins(velocity_bins=vb)[:6])
    except Exception as e: print(vb, "ERR", e)
print(get_default_step_sizes(), get_default_step_sizes(lower_bound_shift=1), get_default_note_values())
for kw in [dict(), dict(flag_fuse_velocity=False), dict(flag_fuse_value=False), dict(flag_fuse_track=False), dict(velocity_bins=2), dict(velocity_bins=5, flag_fuse_velocity=False)]:
    t = T(num_tracks=2, pitch_range=(60,61), **kw)
    print(kw, t.dictionary_size, len(t.dictionary), list(t.dictionary)[:30][-14:])
