from gen import *
import sys, traceback, tempfile, os
rnd = random.Random(int(sys.argv[1]) if len(sys.argv) > 1 else 1)
res = collections.Counter(); fails = {}
def fail(k, *info):
    res[k] += 1; fails.setdefault(k, info)
tmp = tempfile.mkdtemp()
path = os.path.join(tmp, "x.mid")
def inforce(events, kind, T):
    """events: list of (tick, value) sorted; returns list of (tick,value) change points canonical"""
    out = []; cur = None
    for t, v in sorted(events, key=lambda e: e[0]):
        if v != cur: out.append((t, v)); cur = v
    return out
for it in range(1500):
    nseq = rnd.randint(1, 4)
    seqs = []; allnotes = []; sig_ts = []; sig_ks = []
    used_ts = set(); used_ks = set()
    for i in range(nseq):
        ch = rnd.randrange(16)
        notes = [(ch, p, on, off, v) for (_, p, on, off, v) in gen_wellformed(rnd, nch=1, maxt=300, maxn=6, pitches=(21, 108), maxd=100)]
        meta = []
        for e in gen_meta(rnd, 300):
            if e[0] == "ts":
                if e[1] in used_ts: continue
                used_ts.add(e[1]); sig_ts.append((e[1], (e[2], e[3])))
            else:
                if e[1] in used_ks: continue
                used_ks.add(e[1]); sig_ks.append((e[1], e[2]))
            meta.append(e)
        s = build(rnd, notes, meta, pad=rnd.choice([None, 400]))
        seqs.append(s); allnotes.append(notes)
    mt = rnd.randrange(nseq)
    try:
        Sequence.sequences_save(seqs, path)
        loaded = Sequence.sequences_load(file_path=path, target_meta_track_index=mt)
    except Exception as e:
        fail("EXC " + type(e).__name__, allnotes, sig_ts, sig_ks, traceback.format_exc()); continue
    bad = False
    if len(loaded) != nseq: fail("count", nseq, len(loaded)); continue
    for i in range(nseq):
        sn = snapshot(loaded[i]) if loaded[i].rel._messages else ([], [], [], 0)
        got = sorted((p, on, off, v) for ch, p, on, off, v in sn[0])
        exp = sorted((p, on, off, v) for ch, p, on, off, v in allnotes[i])
        if got != exp or sn[1]: fail("notes", allnotes[i], got, sn[1]); bad = True
        ts = [(o[0], (o[3], o[4])) for o in sn[2] if o[1] == "time_signature"]
        ks = [(o[0], o[5]) for o in sn[2] if o[1] == "key_signature"]
        if i == mt:
            exp_ts = inforce([(0, (4, 4))] + sig_ts if not any(t == 0 for t, _ in sig_ts) else sig_ts, "ts", 0)
            if inforce(ts, "ts", 0) != exp_ts: fail("ts", sig_ts, ts, exp_ts); bad = True
            if inforce(ks, "ks", 0) != inforce([(t, k.value) for t, k in sig_ks], "ks", 0): fail("ks", sig_ks, ks); bad = True
        else:
            if ts or ks: fail("sig-on-nonmeta", ts, ks); bad = True
    if not bad: res["ok"] += 1
print(res)
for k, v in fails.items():
    print("==", k)
    for x in v: print("    ", str(x)[:900])
