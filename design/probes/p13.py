from gen import *
import sys, traceback, mido
from fractions import Fraction as F
from scoda.midi.midi_file import MidiFile
rnd = random.Random(int(sys.argv[1]) if len(sys.argv) > 1 else 1)
res = collections.Counter(); fails = {}
def fail(k, *info):
    res[k] += 1; fails.setdefault(k, info)
KEYS = ["C","G","D","A","E","B","F#","C#","F","Bb","Eb","Ab","Db","Gb","Cb","Am","Em","Bm","F#m","C#m","G#m","D#m","Dm","Gm","Cm","Fm","Bbm","Ebm"]
from scoda.misc.music_theory import MusicMapping
def nearest_ok(placed, exact): return abs(F(placed) - exact) <= F(1, 2)
for it in range(1500):
    tpb = rnd.choice([24, 48, 96, 120, 192, 240, 384, 480, 960, 1000, 25, 7])
    ntr = rnd.randint(1, 4)
    mf = mido.MidiFile(ticks_per_beat=tpb)
    tr_notes = []; tr_sigs = []
    minlen = max(1, -(-tpb * 3 // 48))  # >= 1.5 lib ticks
    for i in range(ntr):
        ch = rnd.randrange(16)
        # events in file ticks
        notes = gen_wellformed(rnd, nch=1, maxt=tpb * 8, maxn=6, pitches=(30, 34), maxd=tpb * 3)
        notes = [(ch, p, on, off, v) for (_, p, on, off, v) in notes if off - on >= minlen]
        ev = []
        for c, p, on, off, v in notes:
            ev.append((on, 1, ("on", c, p, v))); ev.append((off, 0, ("off", c, p, rnd.random() < 0.5)))
        sigs = []
        for _ in range(rnd.randint(0, 3)):
            t = rnd.randrange(0, tpb * 8)
            if rnd.random() < 0.5: sigs.append((t, "ts", (rnd.randint(1, 12), rnd.choice([2, 4, 8, 16]))))
            else: sigs.append((t, "ks", rnd.choice(KEYS)))
        for t, k, v in sigs: ev.append((t, -1, (k, v)))
        for _ in range(rnd.randint(0, 3)):
            ev.append((rnd.randrange(0, tpb * 8), -2, ("tempo", rnd.randint(100000, 900000))))
        ev.sort(key=lambda e: (e[0], e[1]))
        tr = mido.MidiTrack(); last = 0
        for t, _, e in ev:
            d = t - last; last = t
            if e[0] == "on": tr.append(mido.Message("note_on", channel=e[1], note=e[2], velocity=e[3], time=d))
            elif e[0] == "off":
                tr.append(mido.Message("note_on", channel=e[1], note=e[2], velocity=0, time=d) if e[3] else mido.Message("note_off", channel=e[1], note=e[2], velocity=rnd.randrange(128), time=d))
            elif e[0] == "ts": tr.append(mido.MetaMessage("time_signature", numerator=e[1][0], denominator=e[1][1], time=d))
            elif e[0] == "ks": tr.append(mido.MetaMessage("key_signature", key=e[1], time=d))
            else: tr.append(mido.MetaMessage("set_tempo", tempo=e[1], time=d))
        mf.tracks.append(tr); tr_notes.append(notes); tr_sigs.append(sigs)
    # grouping
    idx = list(range(ntr)); rnd.shuffle(idx)
    k = rnd.randint(1, ntr); used = idx[:k]
    groups = []; 
    while used:
        n = rnd.randint(1, len(used)); groups.append(used[:n]); used = used[n:]
    meta_idx = [i for i in range(ntr) if rnd.random() < 0.6]
    mti = rnd.randrange(len(groups))
    m = MidiFile(); m.parse_mido(mf)
    try:
        out = Sequence.sequences_load(midi_file=m, track_indices=[list(g) for g in groups], meta_track_indices=list(meta_idx), target_meta_track_index=mti)
    except Exception as e:
        fail("EXC " + type(e).__name__, tpb, groups, meta_idx, traceback.format_exc()); continue
    bad = False
    if len(out) != len(groups): fail("count"); continue
    sc = F(24, tpb)
    considered = set(i for g in groups for i in g) | set(meta_idx)
    for gi, g in enumerate(groups):
        sn = snapshot(out[gi]) if out[gi].rel._messages else ([], [], [], 0)
        if sn[1]: fail("anomaly", tpb, [tr_notes[i] for i in g], sn); bad = True
        got = sounding(sn[0])
        must = set(); may = set()
        for i in g:
            for c, p, on, off, v in tr_notes[i]:
                xo, xf = on * sc, off * sc
                lo_on = -(-(xo - F(1, 2)) // 1); hi_on = (xo + F(1, 2)) // 1   # possible placements
                lo_off = -(-(xf - F(1, 2)) // 1); hi_off = (xf + F(1, 2)) // 1
                for t in range(int(hi_on), int(lo_off)): must.add((c, p, t))
                for t in range(int(lo_on), int(hi_off)): may.add((c, p, t))
        if not (must <= got <= may): fail("sounding", tpb, g, [tr_notes[i] for i in g], sn[0], sorted(must - got)[:4], sorted(got - may)[:4]); bad = True
        ts = [(o[0], (o[3], o[4])) for o in sn[2] if o[1] == "time_signature"]
        ks = [(o[0], o[5]) for o in sn[2] if o[1] == "key_signature"]
        if gi != mti:
            if ts or ks: fail("sig-nonmeta"); bad = True
        else:
            # every non-repeating signature must be placed within 1/2 tick: compare in-force change lists with tolerance
            exp = sorted((t * sc, kd, (v if kd == "ts" else MusicMapping.KeyKeyMapping[v].value)) for i in considered for (t, kd, v) in tr_sigs[i])
            for kd, gotl in (("ts", ts), ("ks", ks)):
                e = [(t, v) for t, k2, v in exp if k2 == kd]
                # each got event must match some expected event within 1/2; each expected either matched or repeats the in-force
                for (t, v) in gotl:
                    if not any(v == v2 and nearest_ok(t, t2) for t2, v2 in e) and not (kd == "ts" and t == 0 and v == (4, 4)):
                        fail("sig-unexpected", tpb, kd, gotl, e); bad = True
                for (t2, v2) in e:
                    if not any(v == v2 and nearest_ok(t, t2) for t, v in gotl):
                        # allowed only if repeats in force: previous expected (by exact time) has same value, or default 4/4
                        prev = [x for x in e if x[0] < t2]
                        if not (prev and prev[-1][1] == v2) and not (kd == "ts" and v2 == (4, 4) and not prev) and len([x for x in e if x[0] == t2]) == 1 and not any(abs(x[0]-t2) < 1 and x is not (t2, v2) and x != (t2, v2) for x in e):
                            fail("sig-missing", tpb, kd, gotl, e, (t2, v2)); bad = True
    if not bad: res["ok"] += 1
print(res)
for k, v in fails.items():
    print("==", k)
    for x in v: print("    ", str(x)[:1200])
