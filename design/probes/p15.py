from gen import *
import sys, traceback, itertools
rnd = random.Random(int(sys.argv[1]) if len(sys.argv) > 1 else 1)
res = collections.Counter(); fails = {}
def fail(k, *info):
    res[k] += 1; fails.setdefault(k, info)
for it in range(3000):
    k = rnd.randint(1, 4)
    inputs = []; used = set()
    for i in range(k):
        notes = gen_wellformed(rnd, nch=2, maxt=100, maxn=5, pitches=(60, 61), maxd=50)
        meta = [e for e in gen_meta(rnd, 100) if (e[0], e[1]) not in used]
        used |= set((e[0], e[1]) for e in meta)
        inputs.append((notes, meta, rnd.choice([None, None, 60, 160])))
    def mk(): return [build(random.Random(7), n, m, pad=p, route="abs_sorted") for n, m, p in inputs]
    seqs = mk()
    durs = [snapshot(s)[3] if s.rel._messages else 0 for s in seqs]
    order = list(range(k)); 
    try:
        a = Sequence() if rnd.random() < 0.3 else None
        ss = mk()
        if a is None: a = ss[0]; a.merge(ss[1:])
        else: a.merge(ss)
        sn = snapshot(a) if a.rel._messages else ([], [], [], 0)
        perm = list(range(k)); rnd.shuffle(perm)
        ss2 = mk(); b = ss2[perm[0]]; b.merge([ss2[j] for j in perm[1:]])
        sn2 = snapshot(b) if b.rel._messages else ([], [], [], 0)
    except Exception as e:
        fail("EXC " + type(e).__name__, inputs, traceback.format_exc()); continue
    bad = False
    allnotes = [n for (ns, _, _) in inputs for n in ns]
    if sn[1]: fail("anomaly", inputs, sn); bad = True
    if sounding(sn[0]) != sounding(allnotes): fail("sounding", inputs, sn[0]); bad = True
    # strictly overlapping clusters inside one output note
    for x in allnotes:
        for y in allnotes:
            if x is not y and x[:2] == y[:2] and x[2] < y[3] and y[2] < x[3]:
                lo, hi = min(x[2], y[2]), max(x[3], y[3])
                if not any(o[0] == x[0] and o[1] == x[1] and o[2] <= lo and hi <= o[3] for o in sn[0]): fail("not-fused", inputs, sn[0], x, y); bad = True
    if sn[3] != max(durs): fail("duration", inputs, sn[3], durs); bad = True
    if sorted(x[:4] for x in sn[0]) != sorted(x[:4] for x in sn2[0]): fail("order-dependent", inputs, perm, sn[0], sn2[0]); bad = True
    # signatures
    allmeta = sorted([e for (_, ms, _) in inputs for e in ms], key=lambda e: e[1])
    for kind, name in (("ts", "time_signature"), ("ks", "key_signature")):
        cur = None; exp = []
        for e in allmeta:
            if e[0] != kind: continue
            v = (e[2], e[3]) if kind == "ts" else e[2].value
            if v != cur: exp.append((e[1], v)); cur = v
        got = [(o[0], (o[3], o[4]) if kind == "ts" else o[5]) for o in sn[2] if o[1] == name]
        if got != exp: fail("sig", inputs, kind, got, exp); bad = True
    if not bad: res["ok"] += 1
print(res)
for k, v in fails.items():
    print("==", k)
    for x in v: print("    ", str(x)[:900])
