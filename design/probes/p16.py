import sys, random, collections, traceback
sys.argv = [sys.argv[0], "1", "0"]  # make p04 main loop no-op
import p04
from p04 import *
from scoda.elements.track import Track
from scoda.elements.composition import Composition
rnd = random.Random(5)
res = collections.Counter(); fails = {}
def fail(k, *info):
    res[k] += 1; fails.setdefault(k, info)
def both(s):
    """content through both views, without mutating s (work on raw twin)"""
    t = twin(s); return (canon_abs(t.abs), canon_rel(t.rel)), peek(s)
MUT = ["set_channel", "transpose", "scale", "pad", "quantise", "cutoff", "normalise", "it_abs", "it_rel", "add_abs", "add_rel", "qnl", "merge", "concatenate"]
for it in range(1500):
    orig = fresh_seq(rnd)
    if not orig.rel._messages: continue
    if rnd.random() < .5: orig.normalise()
    if rnd.random() < .5: orig.refresh()
    route = rnd.choice(["copy", "split", "bars_q", "bars_nq", "barcopy", "trackcopy", "compcopy"])
    try:
        if route == "copy": derived = [orig.copy()]
        elif route == "split": derived = orig.split([rnd.randint(1, 60) for _ in range(rnd.randint(1, 3))])
        elif route in ("bars_q", "bars_nq"): derived = [b.sequence for b in Sequence.sequences_split_bars([orig], 0, quantise_note_lengths=route == "bars_q")[0]]
        else:
            bars = Sequence.sequences_split_bars([orig.copy()], 0)[0]
            if route == "barcopy": src = bars; derived = [b.copy().sequence for b in bars]
            elif route == "trackcopy": tr = Track(bars); src = bars; derived = [b.sequence for b in tr.copy().bars]
            else: comp = Composition([Track(bars)]); src = bars; derived = [b.sequence for b in comp.copy().tracks[0].bars]
            # for these, "original" = bars' sequences
            origs = [b.sequence for b in src]
    except Exception as e:
        res["derive-exc:" + route + type(e).__name__] += 1; continue
    if route in ("copy", "split", "bars_q", "bars_nq"): origs = [orig]
    if not derived: continue
    for side in ("derived", "orig"):
        targets, watched = (derived, origs) if side == "derived" else (origs, derived)
        before = [both(w) for w in watched]
        for step in range(rnd.randint(1, 4)):
            tgt = rnd.choice(targets); name = rnd.choice(MUT)
            try: OPS[name](tgt, gen_args(rnd, name))
            except Exception as e: res["op-exc"] += 1; break
        after = [both(w) for w in watched]
        for b, a in zip(before, after):
            if b != a: fail("aliasing:" + route + ":" + side, route)
            if a[1] and a[1][0] == "DIVERGED": fail("diverged:" + route + ":" + side)
    res["ok"] += 1
print(res)
for k in fails: print("==", k)
