from gen import *
import sys, traceback, copy as cp
rnd = random.Random(int(sys.argv[1]) if len(sys.argv) > 1 else 1)
res = collections.Counter(); fails = {}
def fail(k, *info):
    res[k] += 1; fails.setdefault(k, info)
def wf(notes):
    occ = collections.defaultdict(list)
    for ch, p, on, off, v in notes:
        if off <= on or on < 0: return False
        if any(not (off <= a or b <= on) for a, b in occ[(ch, p)]): return False
        occ[(ch, p)].append((on, off))
    return True
for it in range(3000):
    nch = rnd.choice([1, 1, 2])
    notes = gen_wellformed(rnd, nch=nch, maxt=100, maxn=6, pitches=(60, 63), maxd=40)
    meta = gen_meta(rnd, 100)
    A = build(random.Random(it), notes, meta, route="abs_shuffled")
    B = build(random.Random(it + 1), notes, meta, route="rel")
    C = build(random.Random(it + 2), notes, meta, route="abs_sorted")
    for X, Y, nm in ((A, B, "abs-rel"), (A, C, "order"), (A, A, "refl"), (A, A.copy(), "copy")):
        if not X.equals(Y) or not Y.equals(X) or not (X == Y): fail("should-equal:" + nm, notes, meta)
    if not notes: continue
    # perturb one attribute
    i = rnd.randrange(len(notes)); ch, p, on, off, v = notes[i]
    kind = rnd.choice(["pitch", "onset", "duration", "velocity", "channel", "ts-val", "ts-tick", "ks-val"])
    n2 = list(notes); m2 = list(meta); flag = {}
    if kind == "pitch": n2[i] = (ch, p + rnd.choice([-1, 1, 12]), on, off, v)
    elif kind == "onset": d = rnd.choice([-3, -1, 1, 2, 7]); n2[i] = (ch, p, on + d, off + d, v)
    elif kind == "duration": n2[i] = (ch, p, on, off + rnd.choice([-1, 1, 5]), v)
    elif kind == "velocity": n2[i] = (ch, p, on, off, v % 127 + 1); flag = dict(ignore_velocity=True)
    elif kind == "channel":
        if nch == 1: n2 = [(5,) + x[1:] for x in notes]; flag = dict(ignore_channel=True)
        else: n2[i] = (ch + 3, p, on, off, v)
    elif kind in ("ts-val", "ts-tick", "ks-val"):
        idx = [j for j, e in enumerate(meta) if e[0] == kind[:2]]
        if not idx: continue
        j = rnd.choice(idx); e = meta[j]
        if kind == "ts-val": m2[j] = ("ts", e[1], e[2] + 1, e[3]); flag = dict(ignore_time_signature=True)
        elif kind == "ks-val": m2[j] = ("ks", e[1], Key.C if e[2] != Key.C else Key.G); flag = dict(ignore_key_signature=True)
        else:
            nt = e[1] + rnd.choice([1, 3, 10])
            if any(x[0] == "ts" and x[1] == nt for x in meta): continue
            m2[j] = ("ts", nt, e[2], e[3]); flag = dict(ignore_time_signature=True)
    if not wf(n2) or sorted(n2) == sorted(notes) and m2 == meta: continue
    # channel perturbation on meta: meta channel fixed 0; with ignore_channel single-channel relabel, meta msgs stay ch 0 -> fine since flag ignores
    P = build(random.Random(it + 3), sorted(n2), m2, route="abs_sorted")
    if A.equals(P) or P.equals(A): fail("should-differ:" + kind, notes, meta, n2, m2)
    if flag:
        if not A.equals(P, **flag) or not P.equals(A, **flag): fail("flag-should-equal:" + kind, notes, meta, n2, m2)
        # other flags don't relax
        others = {f: True for f in ("ignore_channel", "ignore_time_signature", "ignore_key_signature", "ignore_velocity") if f not in flag}
        if A.equals(P, **others): fail("other-flags-relax:" + kind, notes, meta, n2, m2)
    res["ok:" + kind] += 1
print(res)
for k, v in fails.items():
    print("==", k)
    for x in v: print("    ", str(x)[:500])
