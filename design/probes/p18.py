from gen import *
import sys, traceback
from scoda.exceptions.bar_exception import BarException
rnd = random.Random(int(sys.argv[1]) if len(sys.argv) > 1 else 1)
res = collections.Counter(); fails = {}
def fail(k, *info):
    res[k] += 1; fails.setdefault(k, info)
for it in range(3000):
    notes = gen_wellformed(rnd, nch=2, maxt=100, maxn=6, pitches=(21, 108) if rnd.random() < .5 else (21, 30) if rnd.random() < .5 else (100, 108), maxd=60)
    meta = gen_meta(rnd, 100)
    mk = lambda: build(random.Random(it), notes, meta, pad=[None, 50, 130][it % 3])
    s = mk(); b = snapshot(s) if s.rel._messages else ([], [], [], 0)
    # pad
    n = rnd.choice([0, 1, b[3] - 1, b[3], b[3] + 1, 500]); n = max(n, 0)
    s = mk(); s.pad(n); a = snapshot(s) if s.rel._messages else ([], [], [], 0)
    if a[:3] != b[:3] or a[3] != max(b[3], n): fail("pad", notes, meta, n, b[3], a[3])
    # set_channel
    c = rnd.randrange(16); s = mk(); s.set_channel(c); a = snapshot(s) if s.rel._messages else ([], [], [], 0)
    if sorted((c,) + x[1:] for x in b[0]) != a[0] or a[3] != b[3] or sorted(o[:2] + (c,) + o[3:] for o in b[2]) != sorted(a[2]): fail("set_channel", notes, meta, c, a)
    # scale
    k = rnd.randint(1, 8); s = mk(); s.scale(k, quantise_afterwards=False); a = snapshot(s) if s.rel._messages else ([], [], [], 0)
    if [(x[0], x[1], x[2] * k, x[3] * k, x[4]) for x in b[0]] != a[0] or a[3] != b[3] * k or [(o[0] * k,) + o[1:] for o in b[2]] != a[2]: fail("scale", notes, k)
    # cutoff
    m = rnd.randint(1, 70); r = rnd.randint(1, m); s = mk(); s.cutoff(m, r); a = snapshot(s) if s.rel._messages else ([], [], [], 0)
    exp = sorted((x[0], x[1], x[2], x[2] + r if x[3] - x[2] > m else x[3], x[4]) for x in b[0])
    if a[0] != exp or a[2] != b[2] or a[1]: fail("cutoff", notes, m, r, a[0], exp)
    # transpose
    iv = rnd.choice([0, 1, -1, 12, -12, 24, 7, -5, 100, -100, rnd.randint(-130, 130)])
    s = mk()
    try:
        shifted = s.transpose(iv)
        a = snapshot(s) if s.rel._messages else ([], [], [], 0)
        def wrap(q):
            while q < 21: q += 12
            while q > 108: q -= 12
            return q
        expshift = any(wrap(x[1] + iv) != x[1] + iv for x in b[0])
        if shifted != expshift: fail("transpose-flag", notes, iv, shifted, expshift)
        if any(not 21 <= x[1] <= 108 for x in a[0]): fail("transpose-range", notes, iv)
        if any(not any(y[0] == x[0] and wrap(y[1] + iv) == x[1] for y in b[0]) for x in a[0]): fail("transpose-image", notes, iv, a[0])
        if not expshift:
            if a[0] != sorted((x[0], x[1] + iv, x[2], x[3], x[4]) for x in b[0]): fail("transpose-exact", notes, iv, a[0])
            s.transpose(-iv); a2 = snapshot(s) if s.rel._messages else ([], [], [], 0)
            if a2[0] != b[0]: fail("transpose-back", notes, iv)
        for o in a[2]:
            if o[1] == "key_signature" and o[5] is None: fail("key-undefined", meta, iv)
    except Exception as e:
        fail("transpose EXC " + type(e).__name__ + str(e)[:40], notes, meta, iv, traceback.format_exc())
    # Bar
    num = rnd.randint(1, 9); den = rnd.choice([2, 4, 8, 16])
    if 96 * num % den == 0:
        cap = 96 * num // den
        s = mk()
        ntss = [e for e in meta if e[0] == "ts"]
        try:
            bar = Bar(s, num, den)
            a = snapshot(bar.sequence)
            tss = [o for o in a[2] if o[1] == "time_signature"]
            if a[3] != cap: fail("bar-duration", notes, meta, num, den, b[3], a[3])
            if len(tss) != 1 or tss[0][0] != 0 or (tss[0][3], tss[0][4]) != (num, den): fail("bar-ts", meta, num, den, tss)
            if b[3] > cap: fail("bar-overlong-accepted", b[3], cap)
            if any((e[2], e[3]) != (num, den) for e in ntss): fail("bar-conflict-accepted", meta, num, den)
        except BarException as e:
            if b[3] <= cap and all((e2[2], e2[3]) == (num, den) for e2 in ntss) and len(ntss) <= 1: fail("bar-spurious-reject", meta, num, den, b[3], cap, str(e))
        except Exception as e:
            fail("bar EXC " + type(e).__name__, notes, meta, traceback.format_exc())
print(res)
for k, v in fails.items():
    print("==", k)
    for x in v: print("    ", str(x)[:700])
