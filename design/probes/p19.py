from lib import *
import random, collections, math, sys, itertools
from scoda.misc.util import get_velocity_bins
from scoda.misc.music_theory import CircleOfFifths
print("dup bins vb:", [vb for vb in range(1, 128) if len(set(get_velocity_bins(velocity_bins=vb))) != vb])
print("non-monotone:", [vb for vb in range(1, 128) if sorted(get_velocity_bins(velocity_bins=vb)) != get_velocity_bins(velocity_bins=vb)])
print("last<127:", [vb for vb in range(1, 128) if get_velocity_bins(velocity_bins=vb)[-1] < 127])
rnd = random.Random(1)
res = collections.Counter(); fails = {}
for it in range(600):
    cfg = dict(num_tracks=rnd.randint(1, 3), pitch_range=(60, 60 + rnd.randint(0, 3)), velocity_bins=rnd.choice([1, 1, 2, 3, 5, 8]),
               flag_running_values=rnd.random() < .5, flag_fuse_track=rnd.random() < .5, flag_fuse_value=rnd.random() < .5, flag_fuse_velocity=rnd.random() < .5)
    tok = Tok(**cfg)
    d = tok.dictionary
    assert sorted(d.values()) == list(range(tok.dictionary_size)) and len(d) == tok.dictionary_size, cfg
    vocab = list(d)
    for t in vocab:
        try: tok.detokenise([t])
        except Exception as e: res["vocab-reject:" + type(e).__name__] += 1; fails.setdefault("vocab-reject", (cfg, t, e)); break
    # weighted stream
    n = rnd.randint(0, 40)
    notes_toks = [t for t in vocab if "pit" in t]; rests = [t for t in vocab if t.startswith("rst")]; others = [t for t in vocab if t not in notes_toks and t not in rests]
    stream = [rnd.choice(rnd.choice([notes_toks, rests, others, ["bar"]])) for _ in range(n)]
    try:
        info = tok.get_info(stream, flag_impute_values=rnd.random() < .5)
        prev = collections.Counter()
        ok = True
        for i, t in enumerate(stream):
            out = tok.detokenise(stream[:i + 1])
            cur = collections.Counter((k, m.note, m.time) for k, s in enumerate(out) for m in s.abs._messages if m.message_type == MT.NOTE_ON)
            new = cur - prev; prev = cur
            if "pit" in t:
                assert sum(new.values()) == 1, (stream, i, new)
                (k, p, on), = new.keys()
                if info["info_time"][i] != on or info["info_pitch"][i] != p or info["info_circle_of_fifths"][i] != CircleOfFifths.circle_of_fifths_order.index(type(CircleOfFifths.circle_of_fifths_order[0])(p % 12)) - 5:
                    ok = False; fails.setdefault("mismatch", (cfg, stream, i, info["info_time"][i], on))
            else:
                assert not new
            if info["info_position"][i] != i: ok = False
        if any(len(v) != len(stream) for v in info.values()): ok = False
        res["ok" if ok else "bad"] += 1
    except Exception as e:
        res["EXC " + type(e).__name__ + str(e)[:30]] += 1; fails.setdefault("exc", (cfg, stream, e))
print(res)
for k, v in fails.items(): print("==", k, str(v)[:800])
