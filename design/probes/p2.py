from lib import *
import random, traceback, collections
from scoda.misc.util import get_default_note_values
rnd = random.Random(1)
NV = get_default_note_values()
def gen_piece(ntracks, unit=2):
    nbars = rnd.randint(1, 4)
    sigs = []
    cur = None
    t = 0; bars = []
    for b in range(nbars):
        if b == 0 or rnd.random() < 0.4:
            den = rnd.choice([4, 8]); 
            num = rnd.randint(1, 8) if den == 4 else rnd.randint(2, 16)
            if (num, den) != cur and not (cur is None and rnd.random() < 0.3):
                cur = (num, den); sigs.append((t, num, den))
        n, d = cur if cur else (4, 4)
        L = 96 * n // d
        bars.append((t, L)); t += L
    total = t
    tracks = []
    for tr in range(ntracks):
        notes = []
        occupied = collections.defaultdict(list)
        for _ in range(rnd.randint(0, 6)):
            on = rnd.randrange(0, total, unit); d = rnd.choice(NV); p = rnd.randint(21, 108)
            if on + d > total: continue
            if not any(t <= on and on + d <= t + L for t, L in bars): continue
            if any(not (on + d <= a or b <= on) for a, b in occupied[p]): continue
            occupied[p].append((on, on + d)); notes.append((p, on, d, rnd.randint(1, 127)))
        tracks.append(notes)
    return sigs, bars, total, tracks
import sys, ast
CFG = ast.literal_eval(sys.argv[1]) if len(sys.argv) > 1 else {}
BINS = None
res = collections.Counter()
fails = {}
for it in range(3000):
    nt = rnd.randint(1, 3)
    sigs, bars, total, tracks = gen_piece(nt)
    seqs = []
    for i, notes in enumerate(tracks):
        extra = [TS(t, n, d) for t, n, d in sigs] if i == 0 else []
        seqs.append(mkseq(notes, extra, dur=total if rnd.random() < 0.6 else None))
    tok = Tok(num_tracks=nt, **CFG)
    try:
        toks = tok.tokenise([s.copy() for s in seqs])
        out = tok.detokenise(tok.decode(tok.encode(toks)))
        ok = True
        for i in range(nt):
            n, a, dur = notes_of(out[i], "abs")
            exp = sorted((0, p, on, on + d, min(b for b in tok.velocity_bins if b >= v)) for p, on, d, v in tracks[i])
            got = sorted((0, p, on, off, v) for c, p, on, off, v in n)
            if exp != got or a:
                ok = False; fails.setdefault("notes", (sigs, bars, tracks, toks, exp, got, a))
            internals = sorted(set(m.time for m in out[i].abs._messages if m.message_type == MT.INTERNAL))
            D = max(notes_of(q, "abs")[2] if q.abs._messages else 0 for q in seqs)
            expb = [t + L for t, L in bars if t < D]
            total = expb[-1] if expb else 0
            # empty piece?
            if internals != expb or dur != total:
                ok = False; fails.setdefault("grid", (sigs, bars, tracks, toks, internals, expb, dur, total))
        res["ok" if ok else "bad"] += 1
    except Exception as e:
        key = type(e).__name__ + ":" + str(e)[:40]
        res[key] += 1
        fails.setdefault(key, (sigs, bars, tracks, traceback.format_exc()))
print(res)
for k, v in fails.items():
    print("==", k); 
    for x in v: print("   ", x)
