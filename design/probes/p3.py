from lib import *
import random, traceback, collections, sys, ast
from scoda.misc.util import get_default_note_values
CFG = ast.literal_eval(sys.argv[1]) if len(sys.argv) > 1 else {}
rnd = random.Random(2)
NV = get_default_note_values()
def gen_piece(ntracks, unit=2):
    nbars = rnd.randint(1, 5)
    sigs = []; cur = None; t = 0; bars = []
    for b in range(nbars):
        if rnd.random() < 0.4:
            den = rnd.choice([4, 8]); num = rnd.randint(1, 8) if den == 4 else rnd.randint(2, 16)
            if (num, den) != cur: cur = (num, den); sigs.append((t, num, den))
        n, d = cur if cur else (4, 4)
        L = 96 * n // d; bars.append((t, L)); t += L
    total = t; tracks = []
    for tr in range(ntracks):
        notes = []; occupied = collections.defaultdict(list)
        for _ in range(rnd.randint(0, 8)):
            on = rnd.randrange(0, total, unit); d = rnd.choice(NV); p = rnd.randint(21, 108)
            if on + d > total: continue
            if any(not (on + d <= a or b <= on) for a, b in occupied[p]): continue
            occupied[p].append((on, on + d)); notes.append((p, on, d, rnd.randint(1, 127)))
        tracks.append(notes)
    return sigs, bars, total, tracks
res = collections.Counter(); fails = {}
def detok_notes(tok, toks):
    out = tok.detokenise(tok.decode(tok.encode(toks)))
    r = []
    for s in out:
        n, a, dur = notes_of(s, "abs")
        internals = sorted(set(m.time for m in s.abs._messages if m.message_type == MT.INTERNAL))
        r.append((n, a, dur, internals))
    return r
for it in range(1500):
    nt = rnd.randint(1, 3)
    sigs, bars, total, tracks = gen_piece(nt)
    seqs = []
    for i, notes in enumerate(tracks):
        extra = [TS(t, n, d) for t, n, d in sigs] if i == 0 else []
        seqs.append(mkseq(notes, extra, dur=total if rnd.random() < 0.5 else None))
    tok = Tok(num_tracks=nt, **CFG)
    try:
        tb = Sequence.sequences_split_bars([s.copy() for s in seqs], 0)
        nb = len(tb[0])
        whole = [Bar.to_sequence([b.copy() for b in tb[i]]) for i in range(nt)]
        toks_whole = tok.tokenise(whole)
        # random partition
        cuts = sorted(rnd.sample(range(1, nb), rnd.randint(0, nb - 1))) if nb > 1 else []
        groups = [list(range(a, b)) for a, b in zip([0] + cuts, cuts + [nb])]
        sd = {}; toks_chunks = []
        for g in groups:
            chunk = [Bar.to_sequence([tb[i][k].copy() for k in g]) for i in range(nt)]
            toks_chunks.extend(tok.tokenise(chunk, state_dict=sd))
        a = detok_notes(tok, toks_whole); b = detok_notes(tok, toks_chunks)
        if a == b: res["ok"] += 1
        else:
            res["bad"] += 1; fails.setdefault("bad", (sigs, bars, tracks, groups, toks_whole, toks_chunks, a, b))
    except Exception as e:
        key = type(e).__name__ + ":" + str(e)[:50]
        res[key] += 1; fails.setdefault(key, (sigs, bars, tracks, traceback.format_exc()))
print(res)
for k, v in fails.items():
    print("==", k)
    for x in v: print("   ", str(x)[:1500])
