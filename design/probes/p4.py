from lib import *
def N(p,t,on=True,v=64): return Message(message_type=MT.NOTE_ON if on else MT.NOTE_OFF, note=p, time=t, velocity=v if on else None)
# 1. overwrite_relative on a fresh Sequence() (rel stale)
s = Sequence()
try:
    s.overwrite_relative_messages([Message(message_type=MT.NOTE_ON, note=60, velocity=5), Message(message_type=MT.WAIT, time=10), Message(message_type=MT.NOTE_OFF, note=60)])
    print("ovr rel ok", s.abs._messages)
except Exception as e: print("ovr rel ->", type(e).__name__, e)
# 2. overwrite_absolute when abs stale
s = mkseq([(60,0,10,5)]); s.normalise()  # abs stale now
print(s._abs_stale, s._rel_stale)
try:
    s.overwrite_absolute_messages([N(61,0), N(61,5,False)])
    print("ovr abs ok", s.rel._messages)
except Exception as e: print("ovr abs ->", type(e).__name__, e)
# 3. both fresh then add_absolute -> rel invalidated?
s = mkseq([(60,0,10,5)]); s.rel; print(s._abs_stale, s._rel_stale); s.add_absolute_message(N(70, 3)); print(s._rel_stale)
# 4. messages_abs with read of rel inside
s = mkseq([(60,0,10,5)])
for m in s.messages_abs():
    m.note = 61; _ = s.rel
print(s.rel._messages, s._abs_stale, s._rel_stale)
# 5. copy from abs-stale
s = mkseq([(60,0,10,5)]); s.normalise(); c = s.copy(); print(c._abs_stale, c._rel_stale, c.abs._messages)
# 6. equals onset blind
a = mkseq([(60,0,10,5)]); b = mkseq([(60,7,10,5)]); print("onset-blind equals:", a.equals(b), a == b)
# 7. split aliasing
s = mkseq([(60,0,10,5),(62,20,10,5)]); s.abs; pcs = s.split([15]); pcs[0].transpose(1); print("orig after piece transpose:", s.rel._messages, s.abs._messages)
# 8 empty sequence ops
e = Sequence()
for name, f in [("dur", lambda: e.get_sequence_duration()), ("chan", lambda: e.get_sequence_channel()), ("norm", lambda: e.normalise()), ("quant", lambda: e.quantise()), ("qnl", lambda: e.quantise_note_lengths()), ("split", lambda: e.split([10])), ("pad", lambda: e.pad(10)), ("is_empty", lambda: e.is_empty()), ("eq", lambda: e.equals(Sequence())), ("transpose", lambda: e.transpose(3)), ("cutoff", lambda: e.cutoff(10, 5)), ("copy", lambda: e.copy())]:
    e = Sequence()
    try: print(name, "->", f())
    except Exception as ex: print(name, "EXC", type(ex).__name__, ex)
