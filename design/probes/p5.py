from gen import *
import sys, traceback
rnd = random.Random(int(sys.argv[1]) if len(sys.argv) > 1 else 1)
NCH = int(sys.argv[2]) if len(sys.argv) > 2 else 1
res = collections.Counter(); fails = {}
def fail(k, *info):
    res[k] += 1; fails.setdefault(k, info)
for it in range(4000):
    notes = gen_wellformed(rnd, nch=NCH, maxt=120, maxn=6, pitches=(60, 62), maxd=40)
    meta = gen_meta(rnd, 120)
    steps = [rnd.choice([1,2,3,4,5,6,7,8,12,16,24,48]) for _ in range(rnd.randint(1, 3))]
    s = build(rnd, notes, meta)
    before = snapshot(s)
    try:
        s.quantise(list(steps))
    except Exception as e:
        fail("EXC " + type(e).__name__, notes, meta, steps, traceback.format_exc()); continue
    n2, a2, o2, d2 = snapshot(s)
    M = max(steps)
    ongrid = lambda t: any(t % st == 0 for st in steps)
    bad = False
    for ch, p, on, off, v in n2:
        if not ongrid(on) or not ongrid(off): fail("offgrid", notes, steps, n2); bad = True
        if off <= on: fail("nonpositive", notes, steps, n2); bad = True
    for o in o2:
        if not ongrid(o[0]): fail("offgrid-other", meta, steps, o2); bad = True
    if a2: fail("anomaly:" + a2[0][0], notes, steps, n2, a2); bad = True
    # overlap
    byk = collections.defaultdict(list)
    for ch, p, on, off, v in n2: byk[(ch, p)].append((on, off))
    for k, l in byk.items():
        l.sort()
        for (a, b), (c, d) in zip(l, l[1:]):
            if c < b: fail("overlap", notes, steps, n2); bad = True
    # others kept: same multiset modulo time, displacement<=M
    b_others = before[2]
    if sorted(x[1:] for x in b_others) != sorted(x[1:] for x in o2): fail("others-lost", meta, steps, b_others, o2); bad = True
    # survival for isolated notes
    for ch, p, on, off, v in notes:
        iso = all((c, q) != (ch, p) or (a, b) == (on, off) or a - off >= 2 * M or on - b >= 2 * M for c, q, a, b, _ in notes)
        if not iso: continue
        cands = sorted(set([(on // st) * st for st in steps] + [(on // st) * st + st for st in steps]))
        dmin = min(abs(c - on) for c in cands)
        starts = [c for c in cands if abs(c - on) == dmin]
        ecands = set([(off // st) * st for st in steps] + [(off // st) * st + st for st in steps])
        must_survive = all(any(e > s0 for e in ecands) for s0 in starts)
        surv = [x for x in n2 if x[0] == ch and x[1] == p and abs(x[2] - on) <= M and abs(x[3] - off) <= M]
        if must_survive and not surv: fail("dropped-isolated", notes, steps, (ch, p, on, off), n2); bad = True
        if surv and surv[0][4] != v: fail("velocity", notes, steps, n2); bad = True
    # displacement: every out note matched to an input note within M
    for ch, p, on, off, v in n2:
        if not any(c == ch and q == p and abs(a - on) <= M and abs(b - off) <= M for c, q, a, b, _ in notes):
            fail("displacement", notes, steps, (ch, p, on, off), n2); bad = True
    if not bad: res["ok"] += 1
print(res)
for k, v in fails.items():
    print("==", k)
    for x in v: print("    ", str(x)[:700])
