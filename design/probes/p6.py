from gen import *
import sys, traceback
rnd = random.Random(int(sys.argv[1]) if len(sys.argv) > 1 else 1)
NCH = int(sys.argv[2]) if len(sys.argv) > 2 else 2
res = collections.Counter(); fails = {}
def fail(k, *info):
    res[k] += 1; fails.setdefault(k, info)
for it in range(4000):
    notes = gen_wellformed(rnd, nch=NCH, maxt=120, maxn=7, pitches=(60, 62), maxd=50)
    meta = gen_meta(rnd, 120)
    vals = [rnd.choice([1,2,3,4,6,8,9,12,16,18,24,36,48,96]) for _ in range(rnd.randint(1, 4))]
    dne = rnd.random() < 0.5
    s = build(rnd, notes, meta, pad=rnd.choice([None, 130, 300]))
    before = snapshot(s)
    try:
        s.quantise_note_lengths(list(vals), do_not_extend=dne)
    except Exception as e:
        fail("EXC " + type(e).__name__, notes, meta, vals, traceback.format_exc()); continue
    n2, a2, o2, d2 = snapshot(s)
    bad = False
    if a2: fail("anomaly", notes, vals, dne, n2, a2); bad = True
    if o2 != before[2]: fail("others-changed", before[2], o2); bad = True
    inmap = {(ch, p, on): (off, v) for ch, p, on, off, v in notes}
    outmap = {}
    for ch, p, on, off, v in n2:
        if (ch, p, on) not in inmap: fail("new-onset", notes, vals, dne, n2); bad = True; continue
        outmap[(ch, p, on)] = off
        if off - on not in vals: fail("bad-duration", notes, vals, dne, n2); bad = True
        if inmap[(ch, p, on)][1] != v: fail("velocity", notes, vals, n2); bad = True
    byk = collections.defaultdict(list)
    for ch, p, on, off, v in notes: byk[(ch, p)].append((on, off))
    for k, l in byk.items():
        l.sort()
        for i, (on, off) in enumerate(l):
            nxt = l[i + 1][0] if i + 1 < len(l) else None
            d = off - on
            fit = [v for v in vals if (nxt is None or on + v <= nxt) and (not dne or v <= d)]
            got = outmap.get((k[0], k[1], on))
            if got is None:
                if fit: fail("removed-though-fits", notes, vals, dne, (k, on, off), n2); bad = True
            else:
                if not fit: fail("kept-though-nothing-fits", notes, vals, dne, (k, on, off), n2); bad = True
                else:
                    best = min(abs(v - d) for v in fit)
                    if got - on not in fit or abs(got - on - d) != best: fail("not-closest", notes, vals, dne, (k, on, off, got), n2); bad = True
    if not bad: res["ok"] += 1
print(res)
for k, v in fails.items():
    print("==", k)
    for x in v: print("    ", str(x)[:700])
