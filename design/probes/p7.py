from gen import *
import sys, traceback
rnd = random.Random(int(sys.argv[1]) if len(sys.argv) > 1 else 1)
res = collections.Counter(); fails = {}
def fail(k, *info):
    res[k] += 1; fails.setdefault(k, info)
def gen_rel(rnd, paired):
    msgs = []
    n = rnd.randint(0, 14)
    pool = []
    for _ in range(n):
        r = rnd.random()
        ch = rnd.randrange(2); p = rnd.choice([0, 1, 60, 61])
        if r < 0.3: msgs.append(("w", rnd.randint(1, 20)))
        elif r < 0.6: msgs.append(("on", ch, p, rnd.randint(1, 127)))
        elif r < 0.85: msgs.append(("off", ch, p))
        elif r < 0.93: msgs.append(("ts", rnd.choice([3, 4]), rnd.choice([4, 8])))
        else: msgs.append(("ks", rnd.choice([Key.C, Key.G])))
    if paired:
        # repair: drop orphan offs, close everything at the end
        cnt = collections.Counter(); out = []
        for m in msgs:
            if m[0] == "off":
                if cnt[(m[1], m[2])] == 0: continue
                cnt[(m[1], m[2])] -= 1
            if m[0] == "on": cnt[(m[1], m[2])] += 1
            out.append(m)
        for k, c in cnt.items():
            for _ in range(c):
                if rnd.random() < 0.5: out.append(("w", rnd.randint(1, 9)))
                out.append(("off", k[0], k[1]))
        if rnd.random() < 0.5: out.append(("w", rnd.randint(1, 9)))
        msgs = out
    return msgs
def mk(msgs):
    rel = []
    for m in msgs:
        if m[0] == "w": rel.append(Message(message_type=MT.WAIT, time=m[1]))
        elif m[0] == "on": rel.append(Message(message_type=MT.NOTE_ON, channel=m[1], note=m[2], velocity=m[3]))
        elif m[0] == "off": rel.append(Message(message_type=MT.NOTE_OFF, channel=m[1], note=m[2]))
        elif m[0] == "ts": rel.append(Message(message_type=MT.TIME_SIGNATURE, numerator=m[1], denominator=m[2]))
        else: rel.append(Message(message_type=MT.KEY_SIGNATURE, key=m[1]))
    return Sequence(relative_sequence=RelativeSequence(rel))
def sounding_count(relmsgs):
    t = 0; cnt = collections.Counter(); snd = set(); 
    # sounding during [t, t+w) for keys with cnt>0
    for m in relmsgs:
        if m.message_type == MT.WAIT:
            for k, c in cnt.items():
                if c > 0:
                    for u in range(t, t + m.time): snd.add((k[0], k[1], u))
            t += m.time
        elif m.message_type == MT.NOTE_ON: cnt[(m.channel, m.note)] += 1
        elif m.message_type == MT.NOTE_OFF:
            if cnt[(m.channel, m.note)] > 0: cnt[(m.channel, m.note)] -= 1
    return snd, t
for it in range(6000):
    paired = rnd.random() < 0.5
    msgs = gen_rel(rnd, paired)
    s = mk(msgs)
    snd0, dur0 = sounding_count(s.rel._messages)
    try:
        s.normalise()
    except Exception as e:
        fail("EXC " + type(e).__name__, msgs, traceback.format_exc()); continue
    out = list(s.rel._messages)
    bad = False
    # automaton
    state = {}; ts = None; ks = None
    for m in out:
        k = (m.channel, m.note)
        if m.message_type == MT.NOTE_ON:
            if state.get(k): fail("retrigger", msgs, out); bad = True
            state[k] = True
        elif m.message_type == MT.NOTE_OFF:
            if not state.get(k): fail("orphan-off", msgs, out); bad = True
            state[k] = False
        elif m.message_type == MT.TIME_SIGNATURE:
            if (m.numerator, m.denominator) == ts: fail("dup-ts", msgs, out); bad = True
            ts = (m.numerator, m.denominator)
        elif m.message_type == MT.KEY_SIGNATURE:
            if m.key == ks: fail("dup-ks", msgs, out); bad = True
            ks = m.key
    if any(state.values()): fail("unclosed", msgs, out); bad = True
    snd1, dur1 = sounding_count(out)
    if dur1 != dur0: fail("duration", msgs, out, dur0, dur1); bad = True
    if paired:
        if snd1 != snd0: fail("sounding", msgs, out); bad = True
        c1 = snapshot(s); s.normalise(); c2 = snapshot(s)
        if c1 != c2: fail("not-idempotent", msgs, out, c1, c2); bad = True
    if not bad: res["ok"] += 1
print(res)
for k, v in fails.items():
    print("==", k)
    for x in v: print("    ", str(x)[:900])
