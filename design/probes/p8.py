from gen import *
import sys, traceback
rnd = random.Random(int(sys.argv[1]) if len(sys.argv) > 1 else 1)
NCH = int(sys.argv[2]) if len(sys.argv) > 2 else 1
res = collections.Counter(); fails = {}
def fail(k, *info):
    res[k] += 1; fails.setdefault(k, info)
for it in range(5000):
    notes = gen_wellformed(rnd, nch=NCH, maxt=100, maxn=6, pitches=(60, 62), maxd=70)
    meta = gen_meta(rnd, 100)
    s = build(rnd, notes, meta, pad=rnd.choice([None, None, 120, 180]))
    before = snapshot(s); D = before[3]
    caps = [rnd.choice([1, 5, 10, 24, 30, 50, 96, rnd.randint(1, 120)]) for _ in range(rnd.randint(1, 4))]
    if rnd.random() < 0.3 and D > 0: caps[0] = D  # boundary at final tick
    src_abs_before = [(m.time, m.message_type, m.channel, m.note, m.velocity) for m in s.abs._messages]
    try:
        pieces = s.split(list(caps))
    except Exception as e:
        fail("EXC " + type(e).__name__, notes, meta, caps, traceback.format_exc()); continue
    bad = False
    if snapshot(s) != before: fail("source-changed", notes, caps); bad = True
    if len(pieces) > len(caps) + 1: fail("too-many", notes, caps, len(pieces)); bad = True
    snaps = [snapshot(p) for p in pieces]
    for i, sn in enumerate(snaps[:-1]):
        if i >= len(caps) or sn[3] != caps[i]: fail("capacity", notes, meta, caps, D, [x[3] for x in snaps]); bad = True; break
    if len(snaps) and len(snaps) <= len(caps) and snaps[-1][3] > caps[len(snaps) - 1]: fail("last-over-capacity", notes, caps, [x[3] for x in snaps]); bad = True
    if sum(x[3] for x in snaps) != D: fail("duration-sum", notes, meta, caps, D, [x[3] for x in snaps]); bad = True
    off = 0; snd = set(); others = []; vel = {}
    for sn in snaps:
        if sn[1]: fail("piece-anomaly:" + sn[1][0][0], notes, meta, caps, sn); bad = True
        for ch, p, on, of, v in sn[0]:
            for t in range(on + off, of + off): snd.add((ch, p, t)); vel[(ch, p, t)] = v
        others += [(o[0] + off,) + o[1:] for o in sn[2]]
        off += sn[3]
    if snd != sounding(notes): fail("sounding", notes, meta, caps, [x[0] for x in snaps]); bad = True
    else:
        for ch, p, on, of, v in notes:
            if any(vel[(ch, p, t)] != v for t in range(on, of)): fail("velocity", notes, caps); bad = True
    if sorted(others) != before[2]: fail("others", notes, meta, caps, before[2], sorted(others), D); bad = True
    if not bad: res["ok"] += 1
print(res)
for k, v in fails.items():
    print("==", k)
    for x in v: print("    ", str(x)[:900])
