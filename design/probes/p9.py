from gen import *
import sys, traceback
from scoda.misc.util import get_default_note_values
rnd = random.Random(int(sys.argv[1]) if len(sys.argv) > 1 else 1)
res = collections.Counter(); fails = {}
NV = get_default_note_values()
def fail(k, *info):
    res[k] += 1; fails.setdefault(k, info)
for it in range(2500):
    requant = rnd.random() < 0.5
    nbars = rnd.randint(1, 5); cur = (4, 4); curkey = None; t = 0; bars = []; meta = []
    for b in range(nbars):
        if rnd.random() < 0.4:
            den = rnd.choice([2, 4, 8, 16]); num = rnd.randint(1, 9)
            if 96 * num % den == 0:
                cur = (num, den); meta.append(("ts", t, num, den))
        if rnd.random() < 0.3:
            curkey = rnd.choice(list(Key)); meta.append(("ks", t, curkey))
        L = 96 * cur[0] // cur[1]; bars.append((t, L, cur, curkey)); t += L
    total = t
    nt = rnd.randint(1, 3); mti = rnd.randrange(nt)
    tracks = []; seqs = []
    last_start = bars[-1][0]
    for i in range(nt):
        lim = total if (i == mti) else rnd.choice([total, rnd.randint(1, total)])
        notes = []
        occ = collections.defaultdict(list)
        for _ in range(rnd.randint(0, 7)):
            ch = rnd.randrange(2); p = rnd.randint(60, 62); on = rnd.randrange(0, lim)
            d = rnd.choice(NV) if requant else rnd.randint(1, 150)
            if on + d > lim: continue
            if any(not (on + d <= a or b2 <= on) for a, b2 in occ[(ch, p)]): continue
            occ[(ch, p)].append((on, on + d)); notes.append((ch, p, on, on + d, rnd.randint(1, 127)))
        notes.sort()
        # meta track must reach into the last bar
        pad = None
        if i == mti: pad = rnd.randint(last_start + 1, total)
        elif rnd.random() < 0.4: pad = rnd.randint(1, lim)
        s = build(rnd, notes, meta if i == mti else [], pad=pad)
        tracks.append(notes); seqs.append(s)
    befores = [snapshot(s) if s.rel._messages else None for s in seqs]
    D = max((b[3] for b in befores if b), default=0)
    try:
        tb = Sequence.sequences_split_bars(seqs, meta_track_index=mti, quantise_note_lengths=requant)
    except Exception as e:
        fail("EXC " + type(e).__name__, tracks, meta, traceback.format_exc()); continue
    bad = False
    if any((snapshot(s) if s.rel._messages else None) != b for s, b in zip(seqs, befores)): fail("input-changed", tracks, meta); bad = True
    if len(set(len(x) for x in tb)) != 1: fail("bar-count", tracks, meta, [len(x) for x in tb]); bad = True
    nb = len(tb[0])
    expn = len([1 for (t0, L, c, k) in bars if t0 < D]) if D > 0 else 1
    if nb != expn: fail("bar-count-exp", tracks, meta, bars, D, nb, expn); bad = True
    for i in range(nt):
        off = 0; snd = set()
        for k, bar in enumerate(tb[i][:len(bars)]):
            sn = snapshot(bar.sequence)
            t0, L, c, key = bars[k]
            if sn[3] != L: fail("bar-length", tracks, meta, k, sn[3], L); bad = True
            if (bar.time_signature_numerator, bar.time_signature_denominator) != c: fail("bar-sig", tracks, meta, k); bad = True
            if bar.key_signature != key: fail("bar-key", tracks, meta, k, bar.key_signature, key); bad = True
            tss = [o for o in sn[2] if o[1] == "time_signature"]
            if len(tss) != 1 or tss[0][0] != 0 or (tss[0][3], tss[0][4]) != c: fail("bar-ts-msg", tracks, meta, k, tss); bad = True
            if sn[1]: fail("bar-anomaly", tracks, meta, k, sn); bad = True
            for ch, p, on, of, v in sn[0]:
                for u in range(on + off, of + off): snd.add((ch, p, u))
            off += sn[3]
        exp = sounding(tracks[i])
        if not requant:
            if snd != exp: fail("sounding", tracks[i], meta, bars, sorted(exp - snd)[:5], sorted(snd - exp)[:5]); bad = True
        else:
            if not snd <= exp: fail("sounding-extra", tracks[i], meta); bad = True
            bounds = [b[0] for b in bars] + [total]
            for ch, p, on, of, v in tracks[i]:
                crossing = any(on < b < of for b in bounds)
                if not crossing and not all((ch, p, u) in snd for u in range(on, of)): fail("uncut-shrunk", tracks[i], meta, bars, (ch, p, on, of)); bad = True
    if not bad: res["ok"] += 1
print(res)
for k, v in fails.items():
    print("==", k)
    for x in v: print("    ", str(x)[:900])
