"""Build scoda objects from plain-data case descriptions (so that a replay file is just JSON).

seqspec = {
  "notes": [[channel, pitch, on, off, velocity], ...],      well-formed per (channel, pitch) unless stated otherwise
  "meta":  [["ts", tick, num, den, ch?], ["ks", tick, "Bb", ch?], ["cc", tick, control, value, ch?], ["pc", tick, program, ch?]],
  "route": "abs_sorted" | "abs_ins" | "rel",                how the Sequence is constructed
  "perm":  [ints]                                            insertion order for "abs_ins" (any list; indices are taken modulo)
  "pad":   int | None,                                       pad() afterwards
  "extra_abs": [["on", ch, pitch, vel, tick] | ["off", ch, pitch, tick], ...]   ill-formed decoration (not part of spec_events)
"late_notes": [indices into notes]                        these notes are added with add_absolute_message after construction,
                                                             padding and the post step (only notes whose key occurs once)
  "shift": int                                               every tick of notes and meta events is moved by this many ticks (a long
                                                             leading rest: large absolute tick values)
  "off_vel": [int | None, ...]                              release velocities of the note-offs (cyclic)
  "double": None | "self" | "fresh"                         the sequence concatenated with itself (shared message objects)
  "post":  None | "normalise" | "refresh" | "read_abs" | "read_rel" | "getters" | "copy"   leaves the object in a different
           freshness state / after read-only use / replaced by its copy
}
"""
from pbt.sut import Message, MT, Sequence, RelativeSequence, AbsoluteSequence, Key

_ORDER = {MT.SEQUENCE_CONTROL: -1, MT.KEY_SIGNATURE: 0, MT.TIME_SIGNATURE: 1, MT.CONTROL_CHANGE: 2, MT.PROGRAM_CHANGE: 3,
          MT.NOTE_OFF: 4, MT.NOTE_ON: 5}


def meta_message(e):
    kind, t = e[0], e[1]
    if kind == "ts":
        return Message(message_type=MT.TIME_SIGNATURE, channel=e[4] if len(e) > 4 else 0, time=t, numerator=e[2],
                       denominator=e[3])
    if kind == "ks":
        return Message(message_type=MT.KEY_SIGNATURE, channel=e[3] if len(e) > 3 else 0, time=t, key=Key(e[2]))
    if kind == "cc":
        return Message(message_type=MT.CONTROL_CHANGE, channel=e[4] if len(e) > 4 else 0, time=t, control=e[2],
                       velocity=e[3])
    if kind == "sc":
        return Message(message_type=MT.SEQUENCE_CONTROL, channel=e[2] if len(e) > 2 else 0, time=t)
    if kind == "pc":
        return Message(message_type=MT.PROGRAM_CHANGE, channel=e[3] if len(e) > 3 else 0, time=t, program=e[2])
    raise ValueError(e)


def abs_messages(spec):
    """absolute Message objects (note-on/off pairs and meta events), canonical sorted order that respects the
    library's tie convention (off before on of the same key on one tick)"""
    msgs = []
    off_vel = spec.get("off_vel")
    shift = spec.get("shift", 0)
    for i, (ch, p, on, off, v) in enumerate(spec.get("notes", [])):
        on, off = on + shift, off + shift
        msgs.append(Message(message_type=MT.NOTE_ON, channel=ch, note=p, velocity=v, time=on))
        # hand-built note-offs may carry a release velocity (the oracle's event tuples ignore it)
        msgs.append(Message(message_type=MT.NOTE_OFF, channel=ch, note=p, time=off,
                            velocity=off_vel[i % len(off_vel)] if off_vel else None))
    for e in spec.get("meta", []):
        m = meta_message(e)
        m.time += shift
        msgs.append(m)
    msgs.sort(key=lambda m: (m.time, _ORDER[m.message_type], m.channel, m.note or 0))
    return msgs


def to_relative(msgs, split_waits=None):
    """list of absolute Messages (sorted) -> relative message list with explicit waits. split_waits: list of ints; the
    k-th wait longer than 1 tick is written as two consecutive WAIT messages (split_waits[k % len] decides where)"""
    t = 0
    rel = []
    k = 0
    for m in msgs:
        if m.time > t:
            w = m.time - t
            if split_waits and w > 1:
                first = 1 + split_waits[k % len(split_waits)] % (w - 1)
                k += 1
                rel.append(Message(message_type=MT.WAIT, channel=m.channel, time=first))
                w -= first
            rel.append(Message(message_type=MT.WAIT, channel=m.channel, time=w))
            t = m.time
        c = clone(m)
        c.time = None
        rel.append(c)
    return rel


def _tie_fix(order, msgs):
    """order = list of indices into msgs (insertion order). Make sure that on one tick the note-off of a
    (channel, pitch) is inserted before the note-on of the same key."""
    pos = {}
    for rank, i in enumerate(order):
        m = msgs[i]
        if m.message_type in (MT.NOTE_ON, MT.NOTE_OFF):
            pos[(m.time, m.channel, m.note, m.message_type)] = rank
    for (t, ch, p, typ), rank_on in list(pos.items()):
        if typ != MT.NOTE_ON:
            continue
        rank_off = pos.get((t, ch, p, MT.NOTE_OFF))
        if rank_off is not None and rank_off > rank_on:
            order[rank_on], order[rank_off] = order[rank_off], order[rank_on]
            pos[(t, ch, p, MT.NOTE_ON)] = rank_off
            pos[(t, ch, p, MT.NOTE_OFF)] = rank_on
    return order


def sequence(spec):
    late = sorted(set(spec.get("late_notes") or []))
    if late:
        # a piece built in two steps: the notes with these indices arrive through add_absolute_message after everything else
        # (construction, padding, the 'post' step) has happened
        s = sequence(dict(spec, notes=[n for i, n in enumerate(spec["notes"]) if i not in late], late_notes=None, double=None))
        for i in late:
            ch, p, on, off, v = spec["notes"][i]
            sh = spec.get("shift", 0)
            s.add_absolute_message(Message(message_type=MT.NOTE_ON, channel=ch, note=p, velocity=v, time=on + sh))
            s.add_absolute_message(Message(message_type=MT.NOTE_OFF, channel=ch, note=p, time=off + sh))
        if spec.get("double") == "self":
            s.concatenate([s])
        elif spec.get("double") == "fresh":
            d = Sequence()
            d.concatenate([s, s])
            s = d
        return s
    msgs = abs_messages(spec)
    route = spec.get("route", "abs_sorted")
    if route == "rel":
        s = Sequence(relative_sequence=RelativeSequence(to_relative(msgs, spec.get("split_waits"))))
    elif route == "abs_obj":
        s = Sequence(absolute_sequence=AbsoluteSequence(msgs))
    else:
        s = Sequence()
        order = list(range(len(msgs)))
        if route == "abs_ins" and msgs:
            perm = spec.get("perm") or []
            keyed = sorted(order, key=lambda i: (perm[i % len(perm)] if perm else 0, i))
            if spec.get("untied"):
                # every note-on is added before every note-off: on one tick the absolute list then stores a note-on ahead of the
                # note-off of the touching earlier note (only the library's own canonical sort puts them right)
                order = sorted(keyed, key=lambda i: 0 if msgs[i].message_type == MT.NOTE_ON else 1)
            else:
                order = _tie_fix(keyed, msgs)
        for i in order:
            s.add_absolute_message(msgs[i])
    for e in spec.get("extra_abs", []):
        # further (possibly ill-formed) note messages added one by one: ["on", channel, pitch, velocity, tick] / ["off", channel, pitch, tick]
        if e[0] == "on":
            s.add_absolute_message(Message(message_type=MT.NOTE_ON, channel=e[1], note=e[2], velocity=e[3], time=e[4]))
        else:
            s.add_absolute_message(Message(message_type=MT.NOTE_OFF, channel=e[1], note=e[2], time=e[3]))
    if spec.get("pad") is not None:
        s.pad(spec["pad"])
    if spec.get("double") == "self":
        # the sequence followed by itself: every message object occurs twice in the result (concatenate shares objects)
        s.concatenate([s])
    elif spec.get("double") == "fresh":
        d = Sequence()
        d.concatenate([s, s])
        s = d
    post = spec.get("post")
    if post == "normalise":
        s.normalise()
    elif post == "refresh":
        s.refresh()
    elif post == "read_abs":
        _ = s.abs
    elif post == "read_rel":
        _ = s.rel
    elif post == "getters":
        # read-only use of the object before the operation under test (several getters sort or cache internally)
        for f in (s.get_message_pairings, s.get_sequence_duration, s.is_empty, s.get_sequence_duration_relation,
                  lambda: s.equals(s), lambda: s.get_message_times_of_type([MT.TIME_SIGNATURE, MT.KEY_SIGNATURE]),
                  s.to_midi_track, s.get_interleaved_message_pairings):
            try:
                f()
            except Exception:
                pass
    elif post == "copy":
        s = s.copy()
    return s


def spec_events(spec):
    """what the harness expects the content of sequence(spec) to be: (events, duration) in oracle layout"""
    from pbt import oracles as O
    ev = []
    dur = 0
    for m in abs_messages(spec):
        ev.append(O.ev_tuple(m.time, m))
        dur = max(dur, m.time)
    if spec.get("pad") is not None:
        dur = max(dur, spec["pad"])
    if spec.get("double"):
        ev = ev + [(e[0] + dur,) + tuple(e[1:]) for e in ev]
        dur *= 2
    return ev, dur


def clone(m):
    """field-for-field copy of a Message that does not go through Message.copy (which is code under test)"""
    c = Message.__new__(Message)
    c.__dict__.update(m.__dict__)
    return c


def replica(seq):
    """A fresh Sequence holding deep copies of exactly the view(s) of `seq` that are marked fresh. Reading it
    never disturbs `seq`."""
    memo = {}

    def _c(m):
        # an object that occurs twice in a list is one object twice in the replica as well
        if id(m) not in memo:
            memo[id(m)] = clone(m)
        return memo[id(m)]

    a = AbsoluteSequence([_c(m) for m in seq._abs._messages]) if not seq._abs_stale else None
    memo = {}
    r = RelativeSequence([_c(m) for m in seq._rel._messages]) if not seq._rel_stale else None
    if a is None and r is None:
        from pbt.oracles import Malformed
        raise Malformed("both views stale")
    return Sequence(a, r)
