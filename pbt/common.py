"""Small helpers shared by the property modules."""
from pbt import build, oracles as O


def read_views(out, seq, what="op"):
    """Reads both views of `seq` on a replica (never disturbs seq). Reports malformed / unreadable / disagreeing
    views as violations. Returns (events, duration) of the relative view or None."""
    try:
        rep = build.replica(seq)
        r = O.rel_events(rep.rel)
        a = O.abs_events(rep.abs)
    except O.Malformed as e:
        out.fail("malformed-output", f"after {what}: {e}")
        return None
    except Exception as e:
        out.fail("unreadable-after-op", f"after {what}: {type(e).__name__}: {e}")
        return None
    if O.canon(r) != O.canon(a):
        out.fail("views-disagree", f"after {what}: rel {O.canon(r)} abs {O.canon(a)}")
        return None
    return r


def raw_events(out, seq, what="op"):
    """(events, duration) from the fresh private slot(s) of seq, or None (violation recorded)"""
    try:
        return O.seq_events(seq)
    except O.Malformed as e:
        out.fail("malformed-output", f"after {what}: {e}")
        return None


def bipartite_match(left, right, ok):
    """maximum matching size between indices of left and right where ok(l, r); tiny inputs only"""
    match_r = {}

    def try_(i, seen):
        for j in range(len(right)):
            if j in seen or not ok(left[i], right[j]):
                continue
            seen.add(j)
            if j not in match_r or try_(match_r[j], seen):
                match_r[j] = i
                return True
        return False

    size = 0
    for i in range(len(left)):
        if try_(i, set()):
            size += 1
    return size, match_r


def build_input(out, spec, label="input"):
    """Builds the Sequence of a seqspec and verifies the harness' own precondition: its raw content is well-formed
    and has exactly the notes of the spec. If construction itself raises or deviates (only possible when the code
    under test is broken in a way that is another property's business) the case is marked inconclusive — neither
    a verdict nor a harness crash. Returns (seq, events, duration, notes) or None."""
    try:
        seq = build.sequence(spec)
        ev, d = O.seq_events(seq)
        ns, an = O.notes(ev)
    except Exception as e:  # noqa
        out.inconclusive = f"{label}-construction-raised:{type(e).__name__}"
        return None
    sh = spec.get("shift", 0)
    want = sorted((n[0], n[1], n[2] + sh, n[3] + sh, n[4]) for n in spec.get("notes", []))
    if spec.get("double"):
        d1 = build.spec_events(spec)[1] // 2
        want = sorted(want + [(n[0], n[1], n[2] + d1, n[3] + d1, n[4]) for n in want])
    if spec.get("late_notes") and not an and sorted(ns) != want:
        # a sequence built in two steps (late notes added through add_absolute_message after a view was read) IS the music of
        # its spec, whatever a stale view of the object claims: the property is checked against the spec
        ev, d = build.spec_events(spec)
        return seq, ev, d, [tuple(n) for n in want]
    if an or O.overlaps(ns) or sorted(ns) != want:
        out.inconclusive = f"{label}-construction-deviates"
        return None
    return seq, ev, d, ns
