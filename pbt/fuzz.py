"""Coverage-guided supplement (thorough tier only): atheris / libFuzzer drives the same Hypothesis strategy and the same
check(case) oracle of a property through `fuzz_one_input`, with the scoda package instrumented for coverage feedback.

    python -m pbt.fuzz <ID> <runs> <seed> <out.json>

libFuzzer owns the process (it never returns from Fuzz()), so this runs as a subprocess of the runner; the result is
written to <out.json> by an atexit-free path: the counters are flushed from inside the target every 256 executions and
on a violation the process writes the replay data and leaves with os._exit(77).
A campaign is pinned only approximately by -seed/-runs (libFuzzer), the saved failing case is the reproducible unit.
"""
import importlib
import json
import os
import sys
import tempfile


def main():
    pid, runs, seed, out_path = sys.argv[1].upper(), int(sys.argv[2]), int(sys.argv[3]), sys.argv[4]
    import atheris
    with atheris.instrument_imports(include=["scoda"]):
        import pbt.sut  # noqa: F401
    from hypothesis import given, settings, HealthCheck
    from pbt import runner
    mod = importlib.import_module(f"pbt.props.{pid.lower()}")
    known = runner.load_known(pid)
    col = runner.Collector(mod, known)
    params = dict(mod.TIERS["thorough"])
    strat = mod.strategy(params, 1, 2)

    def flush(failure=None, harness_error=None):
        res = col.result()
        res["nontrivial"] = sorted(res["nontrivial"])
        res["labels"] = dict(res["labels"])
        res["inconclusive"] = dict(res["inconclusive"])
        res["known_hits"] = dict(res["known_hits"])
        res["failure"] = failure
        res["harness_error"] = harness_error
        tmp = out_path + ".tmp"
        with open(tmp, "w") as f:
            json.dump(res, f, default=str)
        os.replace(tmp, out_path)

    @settings(database=None, deadline=None, suppress_health_check=list(HealthCheck))
    @given(strat)
    def test(case):
        try:
            unlisted = col.run(case)
        except Exception:
            import traceback
            flush(harness_error="exception in check() under the fuzzer:\n" + traceback.format_exc())
            os._exit(78)
        if unlisted:
            flush(failure=dict(case=runner._jsonable(case), violations=unlisted, source=f"atheris seed={seed}"))
            os._exit(77)
        if col.evaluations % 256 == 0:
            flush()

    corpus = tempfile.mkdtemp(prefix="fuzz-corpus-", dir=os.path.join(runner.ROOT, ".cache"))
    flush()
    atheris.Setup([sys.argv[0], f"-runs={runs}", f"-seed={seed}", "-max_len=4096", "-verbosity=0", "-print_final_stats=0", corpus],
                  test.hypothesis.fuzz_one_input)
    try:
        atheris.Fuzz()
    finally:
        flush()


if __name__ == "__main__":
    main()
