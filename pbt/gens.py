"""Shared Hypothesis strategies. Every strategy yields plain data (lists / dicts / ints / strings).

Well-formed note sets are built by construction (per (channel, pitch) cumulative gaps and lengths), never by
rejection.
"""
from hypothesis import strategies as st

# pitch pools: dense middle pools make notes interact; boundary pools touch the piano range (21/108) and the MIDI range
# (0/127); 'stride' pools hold pitches whose difference is a keyboard-size constant (87, 88, 108, 109, 128 - 21, ...),
# the shape that makes a flattened (channel, pitch) index collide
STRIDE_POOLS = [(5, 92, 93), (5, 113, 114), (0, 109, 108), (18, 127, 126), (21, 108, 109), (3, 90, 91, 111, 112), (10, 117, 118)]
BOUNDARY_POOLS = [(21, 108), (0, 127), (20, 21, 108, 109), (0, 127, 21, 108), (0, 1, 2), (0, 1, 60)]   # last two: pitch == channel number


def pitch_pool(dense):
    """strategy of pitch pools: mostly the given dense pools, sometimes boundary / stride pools"""
    dense = [tuple(p) for p in dense]
    return st.sampled_from(dense * 3 + BOUNDARY_POOLS + STRIDE_POOLS)


KEYS = ["C", "G", "D", "A", "E", "B", "F#", "C#", "F", "Bb", "Eb", "Ab", "Db", "Gb", "Cb"]
DENOMS = [2, 4, 8, 16]


@st.composite
def wellformed_notes(draw, channels=(0, 1), pitches=(60, 61, 62, 64), max_notes=8, max_len=60, max_gap=40,
                     unit=1, lengths=None, start_max=40, short_bias=True, silent=False):
    vel_extremes = [0, 1, 127] if silent else [1, 127]
    if channels == "pool":
        channels = draw(channel_pool())
        vel_extremes = [0, 1, 127]          # a hand-built note-on may carry velocity 0 (a silent note; it still has a note-off)
    """list of [channel, pitch, on, off, velocity]; intervals of one (channel, pitch) never overlap (they may abut).
    lengths: optional explicit list of allowed durations. unit: all onsets are multiples of unit."""
    n = draw(st.integers(0, max_notes))
    cursor = {}
    notes = []
    gap_s = st.one_of(st.just(0), st.integers(0, 3), st.integers(0, max(1, max_gap // unit)))
    if lengths is not None:
        len_s = st.sampled_from(sorted(lengths))
    elif short_bias:
        len_s = st.one_of(st.integers(1, 3), st.integers(1, max(1, max_len // unit)))
    else:
        len_s = st.integers(1, max(1, max_len // unit))
    for _ in range(n):
        ch = draw(st.sampled_from(list(channels)))
        p = draw(st.sampled_from(list(pitches)))
        k = (ch, p)
        if k not in cursor:
            start = draw(st.one_of(st.just(0), st.integers(0, max(0, start_max // unit)))) * unit
            # second channel, same pitch: favour starting inside a note of the other channel
            cursor[k] = start
            gap = 0
        else:
            gap = draw(gap_s) * unit
        on = cursor[k] + gap
        length = draw(len_s) * (unit if lengths is None else 1)
        off = on + length
        cursor[k] = off
        notes.append([ch, p, on, off, draw(st.one_of(st.integers(1, 127), st.sampled_from(vel_extremes)))])
    notes.sort()
    return notes


@st.composite
def meta_events(draw, max_tick=200, max_events=3, unit=1, with_noise=False, ticks=None):
    """time/key signature events, at most one per kind per tick; optional control/program changes as noise"""
    n = draw(st.integers(0, max_events))
    ev = []
    seen = set()
    kinds = ["ts", "ks"] + (["cc", "pc", "sc"] if with_noise else [])
    tick_s = st.sampled_from(ticks) if ticks else st.one_of(st.just(0), st.integers(0, max_tick // unit).map(lambda x: x * unit))
    for _ in range(n):
        kind = draw(st.sampled_from(kinds))
        t = draw(tick_s)
        if kind == "cc":
            # several control changes may share a tick as long as their controller numbers differ (bank select 0 + 32, pedals);
            # half of the time a further one is put on the tick of an earlier one
            prev_cc = [e for e in ev if e[0] == "cc"]
            ctl = draw(st.one_of(st.sampled_from([0, 32, 64, 66, 7]), st.integers(0, 127)))
            if prev_cc and draw(st.booleans()):
                earlier = draw(st.sampled_from(prev_cc))
                t = earlier[1]
                if draw(st.booleans()):
                    ctl = earlier[2]
            val = draw(st.one_of(st.integers(0, 127), st.sampled_from([0, 127])))
            # (the same controller may be written twice on one tick with different values - pedal down and up again; the later
            # message is the one in force, so their order is content)
            if ("cc", t, ctl, val) in seen:
                continue
            seen.add(("cc", t, ctl, val))
            ev.append(["cc", t, ctl, val])
            continue
        if (kind, t) in seen:
            continue
        seen.add((kind, t))
        if kind == "ts":
            prev = [e for e in ev if e[0] == "ts"]
            # sometimes restate an earlier value, sometimes one of the library's defaults (8/8, 4/4)
            same_ratio = [(n * f, d * f) for _, _, n, d in prev for f in (2, 4) if d * f <= 16 and n * f <= 16] + \
                         [(n // f, d // f) for _, _, n, d in prev for f in (2, 4) if n % f == 0 and d // f >= 2 and d % f == 0]
            val = draw(st.one_of(st.tuples(st.integers(1, 16), st.sampled_from(DENOMS)), st.sampled_from([(8, 8), (4, 4)]),
                                 st.sampled_from([(e[2], e[3]) for e in prev]) if prev else st.just((4, 4)),
                                 # a different signature with the same ratio as an earlier one (3/4 -> 6/8)
                                 st.sampled_from(same_ratio) if same_ratio else st.just((2, 2))))
            ev.append(["ts", t, val[0], val[1]])
        elif kind == "sc":
            ev.append(["sc", t])            # the SEQUENCE_CONTROL member of MessageType (hand-built only)
        elif kind == "ks":
            prev = [e[2] for e in ev if e[0] == "ks"]
            ev.append(["ks", t, draw(st.one_of(st.sampled_from(KEYS), st.sampled_from(prev) if prev else st.just("C")))])
        else:
            ev.append(["pc", t, draw(st.integers(0, 127))])
    return ev


@st.composite
def route(draw, n_msgs_hint=24, allow_post=True):
    """construction route + freshness state"""
    r = draw(st.sampled_from(["abs_sorted", "abs_ins", "rel", "abs_obj"]))
    d = {"route": r}
    if r == "rel" and draw(st.integers(0, 2)) == 0:
        d["split_waits"] = draw(st.lists(st.integers(0, 50), min_size=1, max_size=4))     # rests written as two WAITs
    if r == "abs_ins":
        d["perm"] = draw(st.lists(st.integers(0, 50), min_size=1, max_size=n_msgs_hint))
    if allow_post:
        d["post"] = draw(st.sampled_from([None, None, "normalise", "refresh", "read_abs", "read_rel", "getters", "copy"]))
    return d


# channel pools: two adjacent low channels mostly; sometimes the top of the MIDI range, the percussion channel, one channel only
CHANNEL_POOLS = [(0, 1), (0, 1), (0, 1), (0, 15), (14, 15), (9, 10), (3,), (0, 1, 2)]


def channel_pool():
    return st.sampled_from(CHANNEL_POOLS)


def late_notes(draw, spec, one_in=5):
    """with probability 1/one_in: some notes (only ones whose (channel, pitch) occurs once, so no tie can arise) are added after
    the rest of the sequence was built, padded and possibly read"""
    if spec.get("double") or draw(st.integers(0, one_in - 1)):
        return
    keys = [(n[0], n[1]) for n in spec["notes"]]
    cand = [i for i, k in enumerate(keys) if keys.count(k) == 1]
    if cand:
        spec["late_notes"] = sorted(set(draw(st.lists(st.sampled_from(cand), min_size=1, max_size=3))))


FAR = [1000, 65536 - 7, 65536, 100000, 2 ** 20 + 3]


def far_shift(draw, spec, one_in=12, extra=()):
    """with probability 1/one_in: move the whole content far away from tick 0 (large absolute tick values)"""
    if draw(st.integers(0, one_in - 1)) == 0:
        spec["shift"] = draw(st.sampled_from(FAR + list(extra)))
        if spec.get("pad") is not None:
            spec["pad"] += spec["shift"]
    return spec.get("shift", 0)


@st.composite
def seqspec(draw, notes=None, meta=None, pad=True, allow_post=True, **kw):
    ns = draw(notes if notes is not None else wellformed_notes(**kw))
    ms = draw(meta if meta is not None else meta_events())
    spec = {"notes": ns, "meta": ms}
    spec.update(draw(route(allow_post=allow_post)))
    if draw(st.integers(0, 3)) == 0:
        spec["off_vel"] = draw(st.lists(st.sampled_from([None, 0, 64, 127]), min_size=1, max_size=3))
    end = max([n[3] for n in ns] + [m[1] for m in ms] + [0])
    if pad and draw(st.booleans()):
        spec["pad"] = end + draw(st.one_of(st.just(0), st.integers(0, 50)))
    else:
        spec["pad"] = None
    return spec
