"""Plain-data operation alphabet over one Sequence (used by C04 histories and C16 op lists).

op = [name, args-dict]. `apply(seq, op)` performs the public call(s) on seq with freshly built arguments (so applying the same
op to a replica shares nothing) and returns a plain-data return value; exceptions propagate to the caller.
"""
from hypothesis import strategies as st

from pbt import build, gens
from pbt.sut import Message, MT, Key, Sequence

MUTATORS_IN_PLACE = {"transpose", "set_channel", "scale", "it_abs", "it_rel"}


def msg(spec, with_time):
    kind = spec[0]
    if kind == "w":
        return Message(message_type=MT.WAIT, time=spec[1])
    if kind == "on":
        m = Message(message_type=MT.NOTE_ON, channel=spec[1], note=spec[2], velocity=spec[3])
    elif kind == "off":
        m = Message(message_type=MT.NOTE_OFF, channel=spec[1], note=spec[2])
    elif kind == "ts":
        m = Message(message_type=MT.TIME_SIGNATURE, channel=spec[1], numerator=spec[2], denominator=spec[3])
    elif kind == "ks":
        m = Message(message_type=MT.KEY_SIGNATURE, channel=spec[1], key=Key(spec[2]))
    elif kind == "sc":
        m = Message(message_type=MT.SEQUENCE_CONTROL, channel=spec[1])
    elif kind == "cap":
        # the INTERNAL end/bar marker that detokenise itself adds through add_absolute_message (absolute view only)
        m = Message(message_type=MT.INTERNAL, channel=spec[1])
    else:
        raise ValueError(spec)
    if with_time:
        m.time = spec[-1]
    return m


def _edit(m, kind, val, allow_wait):
    if kind == "note" and m.note is not None:
        m.note = val
    elif kind == "vel" and m.velocity is not None:
        m.velocity = 1 + val % 127
    elif kind == "chan":
        m.channel = val % 2
    elif kind == "wait" and allow_wait and m.message_type == MT.WAIT:
        m.time = m.time + val % 4


def _summary(x):
    """plain-data digest of getter results"""
    if isinstance(x, dict):
        return sorted((k, _summary(v)) for k, v in x.items())
    if isinstance(x, (list, tuple)):
        return [_summary(v) for v in x]
    if isinstance(x, Message):
        return (x.message_type.value, x.channel, x.time, x.note, x.velocity, x.numerator, x.denominator,
                x.key.value if isinstance(x.key, Key) else x.key)
    if isinstance(x, Sequence):
        from pbt import oracles as O
        return O.seq_canon(x)
    return x


def apply(seq, op):
    name, a = op
    if name == "add_abs":
        seq.add_absolute_message(msg(a["m"], True))
    elif name == "add_rel":
        n = len(seq.rel._messages)
        seq.add_relative_message(msg(a["m"], False), index=None if a["i"] is None else a["i"] % (n + 1))
    elif name == "concatenate":
        args = [build.sequence(s) for s in a["seqs"]]
        # (never the same object twice: concatenate shares message objects with its arguments by design -- pinned by
        # test_concatenate -- so a list holding one WAIT twice is scaled / edited twice by every in-place operation)
        seq.concatenate(args)
    elif name == "merge":
        args = [build.sequence(s) for s in a["seqs"]]
        seq.merge(args + args[-1:] if a.get("twice") else args)
    elif name == "cutoff":
        seq.cutoff(a["m"], a["r"])
    elif name == "normalise":
        seq.normalise()
    elif name == "ow_abs":
        seq.overwrite_absolute_messages([msg(m, True) for m in a["msgs"]])
    elif name == "ow_rel":
        seq.overwrite_relative_messages([msg(m, False) for m in a["msgs"]])
    elif name == "pad":
        seq.pad(a["n"])
    elif name == "set_channel":
        seq.set_channel(a["c"])
    elif name == "scale":
        seq.scale(a["k"], quantise_afterwards=a["q"])
    elif name == "scale_down":
        meta = {"none": None, "self": seq}.get(a["meta"])
        if a["meta"] == "other":
            meta = build.sequence(a["other"])
        seq.scale(a["k"], meta_sequence=meta, quantise_afterwards=a["q"])
    elif name == "transpose":
        return seq.transpose(a["n"])
    elif name == "quantise":
        seq.quantise(list(a["steps"]))
    elif name == "qnl":
        seq.quantise_note_lengths(list(a["vals"]), do_not_extend=a["dne"])
    elif name == "qan":
        seq.quantise_and_normalise()
    elif name in ("it_abs", "it_rel"):
        g = seq.messages_abs() if name == "it_abs" else seq.messages_rel()
        try:
            for i, m in enumerate(g):
                # the loop body may look at the other view before and/or after editing the message it was handed
                if a["read"] in ("before", "both"):
                    _ = seq.rel if name == "it_abs" else seq.abs
                for idx, kind, val in a["edits"]:
                    if idx == i:
                        _edit(m, kind, val, name == "it_rel")
                if a["read"] in (True, "after", "both"):
                    _ = seq.rel if name == "it_abs" else seq.abs
                if a["brk"] is not None and i >= a["brk"]:
                    break
        finally:
            g.close()
    elif name == "read_abs":
        _ = seq.abs
    elif name == "read_rel":
        _ = seq.rel
    elif name == "refresh":
        seq.refresh()
    elif name == "inval_abs":
        if not seq._rel_stale:
            seq.invalidate_abs()
    elif name == "inval_rel":
        if not seq._abs_stale:
            seq.invalidate_rel()
    elif name == "copy":
        return ("REPLACE", seq.copy())
    elif name == "split_edit":
        # the pieces of a split are edited in place; the source must be left alone (returns a digest of the pieces)
        pieces = seq.split(list(a["caps"]))
        for p in pieces:
            p.transpose(a["n"])
            p.set_channel(a["c"])
        return [_summary(p) for p in pieces]
    elif name == "getters":
        calls = [lambda: seq.get_message_pairings(), lambda: seq.get_interleaved_message_pairings(),
                 lambda: seq.get_message_times_of_type([MT.TIME_SIGNATURE, MT.KEY_SIGNATURE]), lambda: seq.is_empty(),
                 lambda: seq.is_channel_consistent(), lambda: len(seq.to_midi_track().messages),
                 lambda: seq.get_sequence_duration_relation(), lambda: seq.split([a["n"] + 1, 7]),
                 lambda: seq.equals(seq), lambda: seq == seq, lambda: seq.get_sequence_duration(),
                 lambda: seq.get_sequence_channel(),
                 lambda: [[b.sequence for b in bars] for bars in Sequence.sequences_split_bars([seq], 0, quantise_note_lengths=bool(a["n"] % 2))]]
        res = []
        for c in calls:
            # a getter that rejects the current content (IndexError on empty / orphan-only content, inconsistent
            # channels) is recorded by exception type and must behave the same on the clean replica
            try:
                res.append(_summary(c()))
            except Exception as e:
                res.append(("raised", type(e).__name__))
        return res
    else:
        raise ValueError(name)
    return None


# ------------------------------------------------------------------ strategies

_CH = st.integers(0, 1)
_P = st.sampled_from([60, 61, 62])


def _msg_abs():
    t = st.integers(0, 90)
    return st.one_of(
        st.tuples(st.just("on"), _CH, _P, st.one_of(st.integers(1, 127), st.sampled_from([0, 127])), t),
        st.tuples(st.just("off"), _CH, _P, t),
        st.tuples(st.just("off"), _CH, _P, t),
        st.tuples(st.just("ts"), _CH, st.integers(2, 5), st.just(4), t),
        st.tuples(st.just("ks"), _CH, st.sampled_from(["C", "Db", "G"]), t),
        st.tuples(st.just("cap"), _CH, st.one_of(t, st.integers(90, 200))),
        st.tuples(st.just("sc"), _CH, t)).map(list)


def _msg_rel():
    return st.one_of(
        st.tuples(st.just("w"), st.integers(1, 9)),
        st.tuples(st.just("w"), st.one_of(st.integers(1, 9), st.integers(0, 2))),        # (a zero-tick wait is a legal message)
        st.tuples(st.just("on"), _CH, _P, st.integers(1, 127)),
        st.tuples(st.just("off"), _CH, _P),
        st.tuples(st.just("off"), _CH, _P),
        st.tuples(st.just("ts"), _CH, st.integers(2, 5), st.just(4)),
        st.tuples(st.just("ks"), _CH, st.sampled_from(["C", "Db", "G"])),
        st.tuples(st.just("sc"), _CH)).map(list)


def small_seqspec():
    return gens.seqspec(meta=gens.meta_events(max_tick=60, max_events=2), channels=(0, 1), pitches=(60, 61, 62), max_notes=3,
                        max_len=30, max_gap=20, start_max=20, allow_post=False)


def _edits():
    return st.lists(st.tuples(st.one_of(st.integers(0, 2), st.integers(0, 9)), st.sampled_from(["note", "vel", "chan", "wait"]),
                              st.integers(60, 63)).map(list), max_size=3)


def op_strategy(names):
    table = {
        "add_abs": st.fixed_dictionaries({"m": _msg_abs()}),
        "add_rel": st.fixed_dictionaries({"m": _msg_rel(), "i": st.one_of(st.none(), st.integers(0, 12))}),
        "concatenate": st.fixed_dictionaries({"seqs": st.lists(small_seqspec(), max_size=2)}),
        "merge": st.fixed_dictionaries({"seqs": st.lists(small_seqspec(), max_size=2), "twice": st.sampled_from([False, False, True])}),
        "cutoff": st.integers(1, 30).flatmap(lambda m: st.fixed_dictionaries({"m": st.just(m), "r": st.integers(1, m)})),
        "normalise": st.just({}),
        "ow_abs": st.fixed_dictionaries({"msgs": st.lists(_msg_abs(), max_size=5)}),
        "ow_rel": st.fixed_dictionaries({"msgs": st.lists(_msg_rel(), max_size=6)}),
        "pad": st.fixed_dictionaries({"n": st.integers(0, 150)}),
        "set_channel": st.fixed_dictionaries({"c": st.integers(0, 2)}),
        "scale": st.fixed_dictionaries({"k": st.integers(1, 3), "q": st.sampled_from([False, False, True])}),
        "transpose": st.fixed_dictionaries({"n": st.sampled_from([0, 1, -1, 12, 50, -50, 7])}),
        "scale_down": st.fixed_dictionaries({"k": st.sampled_from([0.5, 0.5, 0.25]), "meta": st.sampled_from(["none", "self", "other"]),
                                             "other": small_seqspec(), "q": st.sampled_from([False, False, True])}),
        "quantise": st.fixed_dictionaries({"steps": st.lists(st.sampled_from([2, 3, 4, 6, 8, 12]), min_size=1, max_size=2)}),
        "qnl": st.fixed_dictionaries({"vals": st.lists(st.sampled_from([2, 4, 6, 12, 24]), min_size=1, max_size=3),
                                      "dne": st.booleans()}),
        "qan": st.just({}),
        "it_abs": st.fixed_dictionaries({"edits": _edits(), "read": st.sampled_from([False, False, "before", "after", "both"]),
                                         "brk": st.sampled_from([None, None, 0, 0, 1, 2])}),
        "it_rel": st.fixed_dictionaries({"edits": _edits(), "read": st.sampled_from([False, False, "before", "after", "both"]),
                                         "brk": st.sampled_from([None, None, 0, 0, 1, 2])}),
        "read_abs": st.just({}), "read_rel": st.just({}), "refresh": st.just({}),
        "inval_abs": st.just({}), "inval_rel": st.just({}), "copy": st.just({}),
        "getters": st.fixed_dictionaries({"n": st.integers(0, 50)}),
        "split_edit": st.fixed_dictionaries({"caps": st.lists(st.integers(1, 40), min_size=0, max_size=3), "n": st.sampled_from([1, -1, 12]),
                                             "c": st.integers(0, 3)}),
    }
    return st.sampled_from(list(names)).flatmap(lambda n: table[n].map(lambda a, n=n: [n, a]))


ALL_OPS = ["add_abs", "add_rel", "concatenate", "merge", "cutoff", "normalise", "ow_abs", "ow_rel", "pad", "set_channel", "scale",
           "transpose", "quantise", "qnl", "qan", "it_abs", "it_rel", "read_abs", "read_rel", "refresh", "inval_abs", "inval_rel",
           "copy", "getters", "refresh", "it_abs", "it_rel", "read_abs", "read_rel", "scale_down", "split_edit"]
MUTATOR_OPS = ["add_abs", "add_rel", "concatenate", "merge", "cutoff", "normalise", "pad", "set_channel", "scale", "transpose",
               "quantise", "qnl", "it_abs", "it_rel", "transpose", "set_channel", "scale", "it_abs", "it_rel"]
