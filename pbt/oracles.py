"""Harness-side oracles. Nothing in here calls a scoda routine: everything is computed from the raw
message lists (`_messages`) of the two representations.

Event tuple layout (plain data, JSON friendly):
    (tick, kind, channel, pitch, velocity, numerator, denominator, key, control, program)
kind is the MessageType value string ("note_on", "note_off", "time_signature", ...).
"""
import numbers
from collections import defaultdict

from pbt.sut import MT, Key

NOTE_ON = "note_on"
NOTE_OFF = "note_off"
TS = "time_signature"
KS = "key_signature"
CC = "control_change"
PC = "program_change"


class Malformed(Exception):
    """Output of the code under test that the oracle cannot interpret (reported as a violation, never a crash)."""


def ticks(x):
    """int for ints and integral floats (float-ness is C11's business only); Malformed otherwise."""
    if isinstance(x, bool) or x is None:
        raise Malformed(f"tick value {x!r}")
    if isinstance(x, numbers.Integral):
        return int(x)
    if isinstance(x, float) and x == int(x):
        return int(x)
    raise Malformed(f"non-integral tick value {x!r}")


def _key(k):
    if k is None:
        return None
    if isinstance(k, Key):
        return k.value
    return "?" + repr(k)


def _kind(m):
    mt = m.message_type
    return mt.value if isinstance(mt, MT) else "?" + repr(mt)


def ev_tuple(t, m):
    kind = _kind(m)
    vel = m.velocity if kind in (NOTE_ON, CC) else None
    return (t, kind, m.channel, m.note, vel, m.numerator, m.denominator, _key(m.key), m.control, m.program)


def abs_events(abs_seq):
    """(events in list order, duration) of an AbsoluteSequence, INTERNAL stripped. Duration = last time."""
    ev = []
    dur = 0
    for m in abs_seq._messages:
        t = ticks(m.time)
        dur = max(dur, t)
        if m.message_type == MT.INTERNAL:
            continue
        if m.message_type == MT.WAIT:
            raise Malformed("WAIT message in absolute view")
        ev.append(ev_tuple(t, m))
    return ev, dur


def rel_events(rel_seq):
    """(events in list order, duration) of a RelativeSequence; waits are accumulated here."""
    ev = []
    t = 0
    for m in rel_seq._messages:
        if m.message_type == MT.WAIT:
            w = ticks(m.time)
            if w < 0:
                raise Malformed(f"negative wait {w}")
            t += w
        elif m.message_type == MT.INTERNAL:
            raise Malformed("INTERNAL message in relative view")
        else:
            ev.append(ev_tuple(t, m))
    return ev, t


def _sortkey(e):
    return tuple((0, x) if isinstance(x, int) else (1, str(x)) if x is not None else (-1, 0) for x in e)


def canon(events_dur):
    """Order-free canonical content: (sorted multiset of events, duration)."""
    ev, dur = events_dur
    return sorted(ev, key=_sortkey), dur


def canon_abs(abs_seq):
    return canon(abs_events(abs_seq))


def canon_rel(rel_seq):
    return canon(rel_events(rel_seq))


def seq_events(seq):
    """Events and duration of a Sequence read WITHOUT touching its accessors: from the relative slot if it
    is marked fresh, else from the absolute slot."""
    if not seq._rel_stale:
        return rel_events(seq._rel)
    if not seq._abs_stale:
        return abs_events(seq._abs)
    raise Malformed("both views stale")


def seq_canon(seq):
    return canon(seq_events(seq))


def internal_ticks(abs_seq):
    return sorted({ticks(m.time) for m in abs_seq._messages if m.message_type == MT.INTERNAL})


# ---------------------------------------------------------------- notes

def notes(events, per_channel=True):
    """Pairing automaton, independent of scoda: per (channel, pitch) in time order, note-offs before note-ons on
    equal ticks (the library's tie convention), FIFO pairing.
    returns (sorted list of (channel, pitch, on, off, velocity), anomalies)"""
    idx = sorted(range(len(events)),
                 key=lambda i: (events[i][0], 0 if events[i][1] == NOTE_OFF else 1, i))
    open_ = defaultdict(list)
    out = []
    anomalies = []
    for i in idx:
        e = events[i]
        t, kind, ch, pitch = e[0], e[1], e[2], e[3]
        k = (ch if per_channel else 0, pitch)
        if kind == NOTE_ON:
            if open_[k]:
                anomalies.append(("retrigger", ch, pitch, t))
            open_[k].append((t, e[4]))
        elif kind == NOTE_OFF:
            if open_[k]:
                on, v = open_[k].pop(0)
                out.append((ch, pitch, on, t, v))
                if t <= on:
                    anomalies.append(("nonpositive", ch, pitch, on))
            else:
                anomalies.append(("orphan_off", ch, pitch, t))
    for (ch, pitch), lst in open_.items():
        for on, _ in lst:
            anomalies.append(("unclosed", ch, pitch, on))
    return sorted(out, key=_sortkey), anomalies


def notes_in_list_order(events):
    """Like notes() but strictly in list order (no re-ordering at equal ticks); for relative lists where the
    order of same-tick events is the content (C07)."""
    open_ = defaultdict(list)
    out = []
    anomalies = []
    for e in events:
        t, kind, ch, pitch = e[0], e[1], e[2], e[3]
        k = (ch, pitch)
        if kind == NOTE_ON:
            if open_[k]:
                anomalies.append(("retrigger", ch, pitch, t))
            open_[k].append((t, e[4]))
        elif kind == NOTE_OFF:
            if open_[k]:
                on, v = open_[k].pop(0)
                out.append((ch, pitch, on, t, v))
            else:
                anomalies.append(("orphan_off", ch, pitch, t))
    for (ch, pitch), lst in open_.items():
        for on, _ in lst:
            anomalies.append(("unclosed", ch, pitch, on))
    return sorted(out, key=_sortkey), anomalies


def overlaps(note_list):
    """pairs of notes of the same (channel, pitch) whose intervals [on, off) intersect"""
    by = defaultdict(list)
    for n in note_list:
        by[(n[0], n[1])].append(n)
    bad = []
    for k, lst in by.items():
        lst.sort(key=lambda n: (n[2], n[3]))
        for a, b in zip(lst, lst[1:]):
            if b[2] < a[3]:
                bad.append((a, b))
    return bad


def sounding(note_list):
    s = set()
    for ch, pitch, on, off, _ in note_list:
        for t in range(on, off):
            s.add((ch, pitch, t))
    return s


def sounding_vel(note_list):
    """{(channel, pitch, tick): velocity}"""
    s = {}
    for ch, pitch, on, off, v in note_list:
        for t in range(on, off):
            s[(ch, pitch, t)] = v
    return s


def sounding_by_count(events):
    """Sounding set of an arbitrary (possibly ill-formed) event list in LIST order: a (channel, pitch) sounds on
    tick t iff its open counter is positive during [t, t+1)."""
    cnt = defaultdict(int)
    since = {}
    s = set()
    for e in events:
        t, kind, ch, pitch = e[0], e[1], e[2], e[3]
        k = (ch, pitch)
        if kind == NOTE_ON:
            if cnt[k] == 0:
                since[k] = t
            cnt[k] += 1
        elif kind == NOTE_OFF:
            if cnt[k] > 0:
                cnt[k] -= 1
                if cnt[k] == 0:
                    for x in range(since.pop(k), t):
                        s.add((ch, pitch, x))
    return s


def others(events, kinds=None):
    """sorted non-note events"""
    r = [e for e in events if e[1] not in (NOTE_ON, NOTE_OFF) and (kinds is None or e[1] in kinds)]
    return sorted(r, key=_sortkey)


# ---------------------------------------------------------------- signatures / grid

def in_force(events, kind):
    """Change-point list [(tick, value)] of time ("time_signature") or key signatures, repeats of the value in
    force removed. Events on the same tick: the last in list order wins."""
    pts = []
    evs = [e for e in events if e[1] == kind]
    evs = sorted(enumerate(evs), key=lambda ie: (ie[1][0], ie[0]))
    for _, e in evs:
        val = (e[5], e[6]) if kind == TS else e[7]
        if pts and pts[-1][0] == e[0]:
            pts[-1] = (e[0], val)
            if len(pts) > 1 and pts[-2][1] == val:
                pts.pop()
            continue
        if pts and pts[-1][1] == val:
            continue
        pts.append((e[0], val))
    return pts


def bar_len(num, den):
    """length in ticks (PPQN 24) of a num/den bar; Fraction-free because 96*num % den == 0 in every generator"""
    return 96 * num // den


def grid(ts_points, total, default=(4, 4)):
    """Bars (start, length, (num, den)) covering [0, total): ts_points = [(tick, (num, den))] on bar starts.
    A signature that does not fall on a bar start of the running grid is ignored (generators never do that)."""
    pts = dict(ts_points)
    bars = []
    t = 0
    cur = default
    while t < total or not bars:
        if t in pts:
            cur = pts[t]
        length = bar_len(*cur)
        bars.append((t, length, cur))
        t += length
        if total == 0:
            break
    return bars


def value_at(points, t, default=None):
    cur = default
    for tick, val in points:
        if tick <= t:
            cur = val
        else:
            break
    return cur
