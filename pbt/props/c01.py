"""C01 — tokenise, encode, decode, detokenise reproduces every valid piece exactly."""
from hypothesis import strategies as st

from pbt import build, oracles as O, tok as T
from pbt.common import build_input
from pbt.runner import Outcome

ID = "C01"
MIN_NONTRIVIAL = 0.4
RULE = ("Hypothesis: (configuration, piece). Configuration: 1-4 tracks, all 16 combinations of the four fuse/running flags "
        "(round-robin per shard) + simplify flag, velocity_bins 1..127 (biased to 1-16 and special counts), pitch ranges "
        "anywhere in 0..127, step sizes = multiples of a unit u in {1,2,3,4,6,12} containing u (or the default set with "
        "u=2), note values = any duplicate-free set (or the default). Piece: 1-6 bars with signature changes from all "
        "signatures of 2..16 eighths, one single-channel sequence per track (arbitrary channel numbers), onsets multiples of "
        "u, durations from the note-value set, pitches in range, velocities 1..127; shapes: free, bars whose only onsets are "
        "on the first tick, runs changing exactly one of value/velocity, empty tracks/pieces; padding none / arbitrary grid "
        "tick / full grid / mixed; notes crossing bar lines only with full-grid padding; key signatures and control changes "
        "as noise. Oracle: tokenise must not raise; decode(encode(t)) == t; per track the detokenised note list (pitch, "
        "on, off, velocity bin) from a harness pairing automaton equals the input's; INTERNAL bar ticks of every track = "
        "ends of the grid bars starting before the longest input duration; signatures in track 0 induce the same bar "
        "lengths; every track lasts exactly the last bar end. Non-trivial: >= 2 notes and one of {rest crossing a bar line, "
        "signature change, >= 2 tracks sounding simultaneously, unequal track lengths, non-default flags, velocity_bins > 1}. "
        "Distinct by case digest.")
RULE = RULE + " Rounds e-g: signature changes spread over two owner tracks with A-B-A plans, 16/17/18/20 tracks, tokeniser objects that already tokenised and detokenised another piece."
RULE = RULE + " Round i: pieces built in two steps (late notes through add_absolute_message after a view was read)."
ASSUMPTIONS = ["velocity bin edges are read from the tokeniser object and compared as numbers",
               "time signature values may come back simplified (6/8 -> 3/4); only bar lengths are compared"]
TIERS = {"quick": dict(shards=8, examples=700), "thorough": dict(size=2, shards=16, examples=15000)}


@st.composite
def _case(draw, shard, nshards, size=1):
    cfg = draw(T.config(shard=shard, nshards=nshards))
    case = {"cfg": cfg, "piece": draw(T.piece(cfg, max_bars=6 + 3 * (size - 1), max_notes=10 * size))}
    if draw(st.integers(0, 3)) == 0:
        # the tokeniser object is not new: it has tokenised and detokenised another piece before
        case["warmup"] = draw(T.piece(cfg, max_bars=3, max_notes=5))
    return case


def strategy(params, shard, nshards):
    return _case(shard, nshards, size=params.get("size", 1) if shard % 2 else 1)


def check(case):
    out = Outcome()
    cfg, piece = case["cfg"], case["piece"]
    try:
        tok = T.make_tokeniser(cfg)
    except Exception as e:
        out.fail("constructor-raises", f"{type(e).__name__}: {e} cfg {cfg}")
        return out
    if case.get("warmup"):
        out.label("reused-tokeniser")
        try:
            warm = [build.sequence(spec) for spec in case["warmup"]["tracks"]]
            tok.detokenise(tok.decode(tok.encode(tok.tokenise(warm))))
        except Exception as e:
            out.inconclusive = f"warm-up-raised:{type(e).__name__}"      # a failure of the warm-up piece is its own case
            return out
    seqs, contents = [], []
    for spec in piece["tracks"]:
        built = build_input(out, spec)
        if built is None:
            return out
        seqs.append(built[0])
        contents.append(built[1:])
    bars = piece["bars"]
    D = max(c[1] for c in contents)
    ends = [b[0] + b[1] for b in bars if b[0] < D]
    E = ends[-1] if ends else 0
    all_notes = [n for c in contents for n in c[2]]
    flags_default = all(cfg[f] for f in T.FLAG_NAMES)
    starts = {b[0] for b in bars}
    onsets = sorted({n[2] for n in all_notes})
    rest_crosses = any(any(a < s < b for s in starts) for a, b in zip([0] + onsets, onsets + [E]))
    simultaneous = len({(i, n[2]) for i, c in enumerate(contents) for n in c[2]}) < sum(len(c[2]) for c in contents) or \
        any(len({i for i, c in enumerate(contents) for n in c[2] if n[2] == t}) >= 2 for t in onsets)
    out.nontrivial = len(all_notes) >= 2 and (rest_crosses or len(bars) > 1 and len({tuple(b[2]) for b in bars}) > 1 or
                                             simultaneous or len({c[1] for c in contents}) > 1 or not flags_default or
                                             cfg["velocity_bins"] > 1)
    out.label("flags=" + "".join("1" if cfg[f] else "0" for f in T.FLAG_NAMES), "shape=" + piece["shape"],
              "pad=" + piece["pad_mode"], *(["crossing"] if piece["crossing"] else []),
              *(["sig-change"] if len({tuple(b[2]) for b in bars}) > 1 else []))
    try:
        tokens = tok.tokenise(seqs)
    except Exception as e:
        out.fail(f"tokenise-raises:{type(e).__name__}", f"{e} cfg {cfg}")
        return out
    try:
        ids = tok.encode(tokens)
    except KeyError as e:
        out.fail("token-not-in-vocabulary", f"{e} cfg {cfg}")
        return out
    except Exception as e:
        out.fail(f"encode-raises:{type(e).__name__}", f"{e}")
        return out
    try:
        back = tok.decode(ids)
    except Exception as e:
        out.fail(f"decode-raises:{type(e).__name__}", f"{e}")
        return out
    if list(back) != list(tokens):
        out.fail("decode-encode-not-identity", f"{tokens} -> {back}")
        return out
    try:
        outs = tok.detokenise(back)
    except Exception as e:
        out.fail(f"detokenise-raises:{type(e).__name__}", f"{e} tokens {tokens[:40]} cfg {cfg}")
        return out
    if len(outs) != cfg["num_tracks"]:
        out.fail("track-count", f"{len(outs)} sequences for {cfg['num_tracks']} tracks")
        return out
    bins = list(tok.velocity_bins)
    for i, o in enumerate(outs):
        try:
            ev, d = O.abs_events(o.abs)
            internals = O.internal_ticks(o.abs)
        except O.Malformed as e:
            out.fail("malformed-output", f"track {i}: {e}")
            return out
        except Exception as e:
            out.fail("output-unreadable", f"track {i}: {type(e).__name__}: {e}")
            return out
        got, an = O.notes(ev)
        want = sorted((n[1], n[2], n[3], T.binned(bins, n[4])) for n in contents[i][2])
        got_n = sorted((n[1], n[2], n[3], n[4]) for n in got)
        if an or got_n != want:
            out.fail("notes-differ", f"track {i}: want {want} got {got_n} anomalies {an}; tokens {tokens[:60]} cfg {cfg}")
            return out
        if internals != ends:
            out.fail("bar-grid", f"track {i}: INTERNAL ticks {internals}, expected bar ends {ends} (bars {bars}, longest duration {D}); tokens {tokens[:60]}")
            return out
        if d != E:
            out.fail("total-duration", f"track {i} lasts {d}, last bar end {E}")
            return out
        if i == 0:
            pts = sorted((e[0], (e[5], e[6])) for e in ev if e[1] == O.TS)
            for b in bars:
                if b[0] >= D and b[0] > 0:
                    break
                val = O.value_at(pts, b[0], (4, 4))
                if 4 * (cfg.get("ppqn") or 24) * val[0] / val[1] != b[1]:
                    out.fail("signature-grid", f"bar at {b[0]} should last {b[1]} but track 0's signatures {pts} say {val}")
                    return out
        else:
            if any(e[1] == O.TS for e in ev):
                out.label("ts-on-non-first-track")
    return out
