"""C02 — vocabulary is closed under tokenise; encode and decode are inverse bijections."""
import itertools

from hypothesis import strategies as st

from pbt import build, tok as T
from pbt.common import build_input
from pbt.runner import Outcome
from pbt.sut import TokenisationException

ID = "C02"
EXHAUSTIVE = True
MIN_NONTRIVIAL = 0.5
RULE = ("(a) exhaustive enumeration of a configuration lattice: 16 flag combinations x velocity_bins 1..127 x num_tracks x pitch "
        "ranges x {default, two custom} step/value sets (quick: tracks {1,2} x range (60,61) x default sets plus a coarse sweep "
        "of the other axes; thorough: tracks 1..3 x 3 ranges x 3 sets): ids are exactly 0..size-1, reported size = number of "
        "entries = size of the inverse map, decode(encode(t)) = t and encode(decode(i)) = i for every member, detokenise "
        "accepts every member. (b) closure, Hypothesis: the C01 generator (valid pieces), 'wild' pieces (off-grid onsets, "
        "foreign values/pitches, mid-bar or non-eighth signatures, wrong track count; TokenisationException = not accepted, "
        "counted) and, for sampled small configurations, an exhaustive one-note-per-(track, pitch, value, bin) sweep: every "
        "emitted token is a vocabulary key. Non-trivial: every vocabulary case (all configurations differ from the two the "
        "suite builds) and closure cases with >= 1 note. Distinct by case digest. exhaustive=true refers to part (a).")
RULE = RULE + " Rounds e-g: signature ranges excluding 8/8, inputs assembled from Bar objects / a Composition, table integrity after looking up non-members."
RULE = RULE + " Round h: high-resolution vocabularies (ppqn up to 10000, fields of four and more digits), insert_bar_token=False."
RULE = RULE + " Round j: one-note sweeps under every signature of the range and at odd resolutions."
ASSUMPTIONS = ["velocity_bins <= 127", "exceptions other than TokenisationException on deliberately invalid ('wild') input are counted as "
               "inconclusive, not as closure violations"]
TIERS = {"quick": dict(shards=8, examples=350, enum_shards=8, lattice="quick"),
         "thorough": dict(shards=16, examples=6000, enum_shards=16, lattice="thorough")}

SETS = [(None, None), ([1, 5], [1, 2, 3]), ([27, 3, 9], [10, 100, 7])]
RANGES = [[60, 61], [0, 1], [125, 127]]


def _cfg(flags, vb, nt, rng, sset):
    cfg = {"num_tracks": nt, "velocity_bins": vb, "pitch_range": rng, "step_sizes": sset[0], "note_values": sset[1],
           "unit": 1, "flag_simplify_time_signature": True}
    cfg.update(T.flags_from_index(flags))
    return cfg


def enumerate_cases(params):
    if params["lattice"] == "thorough":
        for flags, vb, nt, rng, sset in itertools.product(range(16), range(1, 128), (1, 2, 3), RANGES, SETS):
            yield {"kind": "vocab", "cfg": _cfg(flags, vb, nt, rng, sset)}
    else:
        for flags, vb, nt in itertools.product(range(16), range(1, 128), (1, 2)):
            yield {"kind": "vocab", "cfg": _cfg(flags, vb, nt, RANGES[0], SETS[0])}
        for flags, vb, nt, rng, sset in itertools.product(range(16), (1, 2, 7, 15, 16, 100), (1, 3), RANGES, SETS):
            yield {"kind": "vocab", "cfg": _cfg(flags, vb, nt, rng, sset)}


@st.composite
def _wild(draw, shard, nshards):
    cfg = draw(T.config(shard=shard, nshards=nshards, max_tracks=3))
    piece = draw(T.piece(cfg, max_bars=3, max_notes=6))
    edits = []
    for _ in range(draw(st.integers(1, 3))):
        kind = draw(st.sampled_from(["onset", "value", "pitch", "ts", "drop-track", "velocity-edge"]))
        sig = draw(st.one_of(st.tuples(st.integers(1, 33), st.sampled_from([1, 2, 4, 8, 16, 32])),
                             st.sampled_from([(8, 8), (4, 4), (16, 16), (2, 2), (16, 8), (17, 8), (1, 8), (2, 8)])))
        edits.append([kind, draw(st.integers(0, 10 ** 6)), draw(st.integers(-3, 40)), sig[0], sig[1]])
    rng = cfg.get("ts_range")
    if rng and not rng[0] <= 8 <= rng[1] and draw(st.booleans()):
        # the library's default signature (8 eighths) lies outside this tokeniser's range: write it literally on the first bar
        edits.append(["ts", 0, 1, draw(st.sampled_from([8, 4, 16])), draw(st.sampled_from([8, 4, 16]))])
    return {"kind": "wild", "cfg": cfg, "piece": piece, "edits": edits}


@st.composite
def _closure(draw, shard, nshards):
    cfg = draw(T.config(shard=shard, nshards=nshards))
    case = {"kind": "closure", "cfg": cfg, "piece": draw(T.piece(cfg))}
    if cfg.get("ppqn") in (None, 24) and not case["piece"]["crossing"] and draw(st.integers(0, 3)) == 0:
        # the input sequences are assembled from Bar objects (per-bar sequences shorter than the bar, padded by Bar, joined with
        # Bar.to_sequence) or taken from a Composition, the way a user builds a piece bar by bar
        case["via"] = draw(st.sampled_from(["bars_direct", "composition"]))
    case["no_bar_token"] = draw(st.integers(0, 4)) == 0
    return case


@st.composite
def _shapes(draw, shard, nshards):
    cfg = draw(T.config(shard=shard, nshards=nshards, max_tracks=3))
    cfg["velocity_bins"] = draw(st.one_of(st.integers(1, 12), st.sampled_from([15, 16, 19, 32])))
    lo = cfg["pitch_range"][0]
    cfg["pitch_range"] = [lo, min(127, lo + draw(st.integers(0, 2)))]
    if draw(st.integers(0, 2)) == 0:
        cfg["ppqn"] = draw(st.sampled_from([3, 9, 15, 12, 6, 25]))       # odd and small resolutions
    return {"kind": "shapes", "cfg": cfg}


@st.composite
def _high_resolution(draw, shard, nshards):
    """vocabularies of tokenisers that work at a DAW-like resolution: step sizes / note values of 1000 ticks and more give token
    fields with four and five digits"""
    cfg = draw(T.config(shard=shard, nshards=nshards, max_tracks=2))
    p = draw(st.sampled_from([480, 960, 1000, 384, 10000]))
    cfg["ppqn"] = p
    cfg["velocity_bins"] = draw(st.integers(1, 4))
    lo = cfg["pitch_range"][0]
    cfg["pitch_range"] = [lo, min(127, lo + draw(st.integers(0, 1)))]
    cfg["step_sizes"] = draw(st.one_of(st.none(), st.just([p // 4, p // 2, p, 2 * p, 4 * p])))
    cfg["note_values"] = draw(st.one_of(st.none(), st.just([p // 2, p, 2 * p, 4 * p]), st.just([p, 3 * p, 100000])))
    cfg["unit"] = p // 4
    return {"kind": "vocab", "cfg": cfg}


def strategy(params, shard, nshards):
    return st.one_of(_closure(shard, nshards), _wild(shard, nshards), _shapes(shard, nshards), _high_resolution(shard, nshards))


def _apply_edits(piece, edits):
    tracks = piece["tracks"]
    for kind, r, a, b, c in edits:
        notes = [(ti, ni) for ti, t in enumerate(tracks) for ni in range(len(t["notes"]))]
        if kind in ("onset", "value", "pitch", "velocity-edge") and notes:
            ti, ni = notes[r % len(notes)]
            n = tracks[ti]["notes"][ni]
            if kind == "onset":
                n[2] += 1
                n[3] += 1
            elif kind == "value":
                n[3] = n[2] + max(1, a + 4)
            elif kind == "pitch":
                n[1] = min(127, max(0, n[1] + a))
            else:
                n[4] = 127 if a % 2 else 1
        elif kind == "ts":
            bars = piece.get("bars") or [[0, 96, [4, 4]]]
            tick = bars[r % len(bars)][0] if a % 4 else max(0, a * 3)
            for t in tracks:                      # the edited signature replaces whatever sits on that tick
                t["meta"] = [m for m in t["meta"] if not (m[0] == "ts" and m[1] == tick)]
            tracks[r % len(tracks)]["meta"].append(["ts", tick, b, c])
        elif kind == "drop-track" and len(tracks) > 1:
            tracks.pop()
    for t in tracks:
        # keep every track well-formed after the edits (drop notes that now overlap)
        keep, occ = [], {}
        for n in sorted(t["notes"]):
            if any(n[2] < z and x < n[3] for x, z in occ.get((n[0], n[1]), [])):
                continue
            occ.setdefault((n[0], n[1]), []).append((n[2], n[3]))
            keep.append(n)
        t["notes"] = keep
        t["post"] = None
        # at most one signature per tick
        seen, meta = set(), []
        for m in t["meta"]:
            if (m[0], m[1]) in seen:
                continue
            seen.add((m[0], m[1]))
            meta.append(m)
        t["meta"] = meta
    return piece


def _check_vocab(out, cfg, tok):
    d, inv, size = tok.dictionary, tok.inverse_dictionary, tok.dictionary_size
    bins = list(tok.velocity_bins)
    tag = f"vb={cfg['velocity_bins']}"
    if len(set(bins)) < len(bins):
        # root cause R4: repeated bin edges make vocabulary keys collide; one signature per bin count
        if not (len(d) == size == len(inv) and sorted(d.values()) == list(range(size))):
            out.fail(f"vocab-duplicate-bins:{tag}", f"bin edges {bins} repeat; size {size}, entries {len(d)}")
        consistent = False
        # what R4 does NOT explain (and what holds on the pinned tree even for these bin counts): two different
        # tokens sharing an id, or a member that does not survive encode -> decode
        if len(set(d.values())) != len(d):
            out.fail("ids-shared-by-different-tokens", f"{tag} cfg {cfg}: {len(d)} tokens, {len(set(d.values()))} distinct ids")
        else:
            try:
                if tok.decode(tok.encode(list(d))) != list(d):
                    out.fail("decode-encode", f"{tag}: decode(encode(t)) != t for a member")
            except Exception as e:
                out.fail("encode-decode-raises", f"{tag}: {type(e).__name__}: {e}")
    else:
        consistent = True
        if sorted(d.values()) != list(range(size)):
            out.fail("ids-not-consecutive", f"{tag} cfg {cfg}: size {size}, ids {sorted(d.values())[:10]}...")
        if not (len(d) == size == len(inv)):
            out.fail("size-mismatch", f"{tag} cfg {cfg}: entries {len(d)}, dictionary_size {size}, inverse {len(inv)}")
    keys = list(d)
    if consistent and not out.violations:
        # a token that is no member (here: a member of a differently configured vocabulary, and plain junk) is looked up /
        # encoded; whatever that does (KeyError or a fallback id), the table must be the same afterwards
        snapshot = (dict(d), dict(inv), size)
        for foreign in (["trk_99-pit_200-val_97-vel_999"], ["no-such-token"], [""]):
            for f in (lambda: tok.encode(foreign), lambda: tok.dictionary[foreign[0]], lambda: tok.decode([size + 7]),
                      lambda: tok.inverse_dictionary[size + 7]):
                try:
                    f()
                except Exception:
                    pass
        d, inv, size = tok.dictionary, tok.inverse_dictionary, tok.dictionary_size
        if (dict(d), dict(inv), size) != snapshot:
            out.fail("table-changed-by-lookup", f"{tag} cfg {cfg}: entries {len(snapshot[0])} -> {len(d)}, inverse {len(snapshot[1])} -> {len(inv)}, "
                                                f"size {snapshot[2]} -> {size} after looking up non-members")
            return
        keys = list(d)
        try:
            ids = tok.encode(keys)
            if tok.decode(ids) != keys:
                bad = next(k for k, b in zip(keys, tok.decode(ids)) if k != b)
                out.fail("decode-encode", f"{tag}: decode(encode({bad!r})) differs")
            ids = list(range(size))
            if tok.encode(tok.decode(ids)) != ids:
                out.fail("encode-decode", f"{tag}: encode(decode(i)) != i for some id")
        except Exception as e:
            out.fail("encode-decode-raises", f"{tag}: {type(e).__name__}: {e}")
    try:
        tok.detokenise(keys)
    except Exception:
        for k in keys:
            try:
                tok.detokenise([k])
            except Exception as e:
                out.fail("vocabulary-token-rejected-by-detokenise", f"{k!r}: {type(e).__name__}: {e} (cfg {cfg})")
                break
    for k in keys:
        if not isinstance(k, str):
            out.fail("non-string-token", repr(k))
            break


def check(case):
    out = Outcome()
    cfg = case["cfg"]
    kind = case["kind"]
    out.label(kind)
    try:
        tok = T.make_tokeniser(cfg)
    except Exception as e:
        out.fail("constructor-raises", f"{type(e).__name__}: {e} cfg {cfg}")
        return out
    if kind == "vocab":
        out.nontrivial = True
        _check_vocab(out, cfg, tok)
        return out
    if kind == "shapes":
        out.nontrivial = True
        _check_vocab(out, cfg, tok)
        from pbt.sut import Sequence, Message, MT
        bins = list(tok.velocity_bins)
        reps = sorted({max(1, min(127, int(b))) for b in bins} | {1, 127})
        vocab = tok.dictionary
        n = 0
        for tr, p, val, vel in itertools.product(range(cfg["num_tracks"]), range(cfg["pitch_range"][0], cfg["pitch_range"][1] + 1),
                                                 T.note_values_of(cfg), reps):
            seqs = [Sequence() for _ in range(cfg["num_tracks"])]
            seqs[tr].add_absolute_message(Message(message_type=MT.NOTE_ON, note=p, velocity=vel, time=0))
            seqs[tr].add_absolute_message(Message(message_type=MT.NOTE_OFF, note=p, time=val))
            try:
                tokens = tok.tokenise(seqs)
            except TokenisationException as e:
                if cfg.get("ppqn") not in (None, 24, 48, 96):
                    continue      # (at an odd resolution a bar may not be fillable with the step sizes: a legitimate rejection)
                out.fail(f"tokenise-raises:{type(e).__name__}", f"one note track {tr} pitch {p} value {val} velocity {vel}: {e} cfg {cfg}")
                return out
            except Exception as e:
                out.fail(f"tokenise-raises:{type(e).__name__}", f"one note track {tr} pitch {p} value {val} velocity {vel}: {e} cfg {cfg}")
                return out
            n += 1
            missing = [t for t in tokens if t not in vocab]
            if missing:
                out.fail("token-not-in-vocabulary", f"{missing[:3]} for one note track {tr} pitch {p} value {val} velocity {vel}; cfg {cfg}")
                return out
        # ... and one note under every time signature of the tokeniser's range, stated on tick 0
        lo_ts, hi_ts = cfg.get("ts_range") or (2, 16)
        p0 = cfg["pitch_range"][0]
        for num in range(lo_ts, hi_ts + 1):
            seqs = [Sequence() for _ in range(cfg["num_tracks"])]
            seqs[0].add_absolute_message(Message(message_type=MT.TIME_SIGNATURE, numerator=num, denominator=8, time=0))
            seqs[0].add_absolute_message(Message(message_type=MT.NOTE_ON, note=p0, velocity=reps[0], time=0))
            seqs[0].add_absolute_message(Message(message_type=MT.NOTE_OFF, note=p0, time=T.note_values_of(cfg)[0]))
            try:
                tokens = tok.tokenise(seqs)
            except Exception:
                continue          # (acceptance is C01's clause)
            missing = [t for t in tokens if t not in vocab]
            if missing:
                out.fail("token-not-in-vocabulary", f"{missing[:3]} for one note in {num}/8; cfg {cfg}")
                return out
        out.label("shape-sweeps")
        return out
    piece = case["piece"]
    if kind == "wild":
        piece = _apply_edits({"bars": piece["bars"],
                              "tracks": [dict(t, notes=[list(n) for n in t["notes"]], meta=[list(m) for m in t["meta"]])
                                         for t in piece["tracks"]]}, case["edits"])
    seqs = []
    nnotes = 0
    for spec in piece["tracks"]:
        built = build_input(out, spec)
        if built is None:
            return out
        seqs.append(built[0])
        nnotes += len(built[3])
    out.nontrivial = nnotes >= 1
    if case.get("via"):
        out.label("via-" + case["via"])
        from pbt.sut import Bar, Composition
        try:
            if case["via"] == "composition":
                seqs = Composition.from_sequences(seqs, piece["meta_track"]).to_sequences()
            else:
                joined = []
                for spec in piece["tracks"]:
                    bars = []
                    for start, length, (num, den) in piece["bars"]:
                        notes = [[n[0], n[1], n[2] - start, n[3] - start, n[4]] for n in spec["notes"] if start <= n[2] < start + length]
                        bars.append(Bar(build.sequence({"notes": notes, "meta": [], "route": spec.get("route", "abs_sorted"),
                                                        "perm": spec.get("perm"), "pad": None}), num, den))
                    joined.append(Bar.to_sequence(bars))
                seqs = joined
        except Exception as e:
            out.inconclusive = f"assembly-raised:{type(e).__name__}"
            return out
    try:
        if case.get("no_bar_token"):
            out.label("insert_bar_token=False")
            tokens = tok.tokenise(seqs, insert_bar_token=False, state_dict={})
        else:
            tokens = tok.tokenise(seqs)
    except TokenisationException:
        out.label("not-accepted")      # that valid pieces are accepted is C01's clause, not C02's
        return out
    except Exception as e:
        out.inconclusive = f"{kind}-input-raised:{type(e).__name__}"
        return out
    out.label("accepted")
    missing = [t for t in tokens if t not in tok.dictionary]
    if missing:
        out.fail("token-not-in-vocabulary", f"{missing[:3]} cfg {cfg}")
        return out
    try:
        tok.encode(tokens)
    except Exception as e:
        out.fail("encode-fails-on-tokenise-output", f"{type(e).__name__}: {e}")
    return out
