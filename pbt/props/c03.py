"""C03 — stateful bar-by-bar tokenisation is equivalent to tokenising the whole piece."""
import itertools

from hypothesis import strategies as st

from pbt import build, oracles as O, tok as T
from pbt.common import build_input
from pbt.runner import Outcome
from pbt.sut import Bar, Sequence

ID = "C03"
MIN_NONTRIVIAL = 0.3
RULE = ("Hypothesis: (configuration, piece, partitions). Bars are obtained either through Sequence.sequences_split_bars (notes may "
        "cross bar lines and are cut; default note values with re-quantisation, custom value sets without) or by constructing "
        "Bar objects directly from per-bar note sets (any configuration), or cut out of the raw tracks with Sequence.split (no Bar objects: "
        "chunks do not start with their own signature event and may carry a stray mid-bar signature message that tokenise ignores). Chunks are Bar.to_sequence(copies of consecutive "
        "bars) per track, tokenised in order with one threaded state dict; the reference is one tokenise call on "
        "Bar.to_sequence(all bars). Partitions: 'one bar per call', 'everything in one call' and random compositions (quick), "
        "every composition of the bar count (thorough, <= 6 bars). Oracle: both streams are in the vocabulary and detokenise, "
        "per track, to the same notes (pitch, on, off, velocity), the same INTERNAL bar ticks and the same duration. "
        "Non-trivial: >= 2 groups and one of {signature change, empty bar, bar whose only onsets are on tick 0, cut note}. "
        "Distinct by case digest.")
RULE = RULE + " Round i: tokeniser ppqn 24/48/96 on the raw route."
ASSUMPTIONS = ["only whole-bar chunking is in scope; the state dict is opaque",
               "a piece the single call rejects is inconclusive here (acceptance is C01's clause)"]
TIERS = {"quick": dict(shards=8, examples=500, all_partitions=False),
         "thorough": dict(shards=16, examples=5000, all_partitions=True)}


@st.composite
def _case(draw, shard, nshards, all_partitions):
    cfg = draw(T.config(shard=shard, nshards=nshards, max_tracks=3))
    route = draw(st.sampled_from(["split", "direct", "raw"]))
    # Bar / sequences_split_bars lay bars out with the library resolution; chunks cut out of the raw tracks do not depend on it,
    # so the tokeniser's own resolution may differ there
    cfg["ppqn"] = draw(st.sampled_from([None, None, 24, 48, 96])) if route == "raw" else None
    piece = draw(T.piece(cfg, allow_crossing=(route == "split" and cfg["note_values"] is None), noise=False,
                         min_bars=draw(st.sampled_from([1, 2, 2, 3, 4])), spread=(route == "raw")))
    if route == "raw":
        # chunks are cut out of the raw tracks with Sequence.split (no Bar objects, so a chunk does not start with its
        # own signature event and may carry a stray mid-bar signature message, which tokenise ignores)
        total = piece["bars"][-1][0] + piece["bars"][-1][1]
        for t in piece["tracks"]:
            t["pad"] = total
            t["post"] = None
        if draw(st.booleans()):
            b = draw(st.sampled_from(piece["bars"]))
            u = cfg["unit"]
            if b[1] > u:
                tick = b[0] + u * draw(st.integers(1, max(1, (b[1] - 1) // u)))
                # not the value of the next on-grid signature change: normalise (run by tokenise's merge) would drop that
                # change as a repeat of the ignored stray one in the single call only (see DESIGN 11.3)
                nxt = next((bb[2] for bb in piece["bars"] if bb[0] > b[0] and bb[2] != b[2]), None)
                sig = draw(st.sampled_from(T.SIGNATURES).filter(lambda s_: nxt is None or list(s_) != list(nxt)))
                tr = draw(st.sampled_from(piece["tracks"]))
                if tick < b[0] + b[1] and not any(m[0] == "ts" and m[1] == tick for m in tr["meta"]):
                    tr["meta"].append(["ts", tick, sig[0], sig[1], 0])
                    piece["stray_signature"] = True
    cuts = draw(st.lists(st.lists(st.booleans(), min_size=8, max_size=8), min_size=1, max_size=2))
    return {"cfg": cfg, "piece": piece, "route": route, "cuts": cuts, "all_partitions": all_partitions}


def strategy(params, shard, nshards):
    return _case(shard, nshards, params["all_partitions"])


def _bars_direct(piece):
    tracks_bars = []
    for spec in piece["tracks"]:
        bars = []
        for start, length, (num, den) in piece["bars"]:
            notes = [[n[0], n[1], n[2] - start, n[3] - start, n[4]] for n in spec["notes"] if start <= n[2] < start + length]
            s = build.sequence({"notes": notes, "meta": [], "route": spec.get("route", "abs_sorted"), "perm": spec.get("perm"),
                                "pad": None})
            bars.append(Bar(s, num, den))
        tracks_bars.append(bars)
    return tracks_bars


class _Chunk:
    """a whole-bar slice of a raw track; quacks like a Bar for the purposes of this module"""

    def __init__(self, sequence):
        self.sequence = sequence

    def copy(self):
        return _Chunk(self.sequence.copy())


def _concat(chunks):
    s = Sequence()
    s.concatenate([c.sequence for c in chunks])
    return s


def _read(tok, tokens):
    outs = tok.detokenise(tok.decode(tok.encode(tokens)))
    res = []
    for o in outs:
        ev, d = O.abs_events(o.abs)
        ns, an = O.notes(ev)
        res.append((ns, an, O.internal_ticks(o.abs), d))
    return res


def check(case):
    out = Outcome()
    cfg, piece = case["cfg"], case["piece"]
    nt = cfg["num_tracks"]
    try:
        tok = T.make_tokeniser(cfg)
        if case["route"] == "split":
            seqs = []
            for spec in piece["tracks"]:
                built = build_input(out, spec)
                if built is None:
                    return out
                seqs.append(built[0])
            tb = Sequence.sequences_split_bars(seqs, meta_track_index=piece["meta_track"],
                                               quantise_note_lengths=cfg["note_values"] is None)
        elif case["route"] == "raw":
            caps = [b[1] for b in piece["bars"]]
            seqs = []
            for spec in piece["tracks"]:
                built = build_input(out, spec)
                if built is None:
                    return out
                seqs.append(built[0])
            tb = []
            for s in seqs:
                pcs = s.split(list(caps))
                if len(pcs) != len(caps):
                    out.inconclusive = "raw-split-piece-count"
                    return out
                tb.append([_Chunk(p) for p in pcs])
        else:
            tb = _bars_direct(piece)
        nb = len(tb[0])
        if case["route"] == "raw":
            whole = [s.copy() for s in seqs]
        else:
            whole = [Bar.to_sequence([b.copy() for b in tb[i]]) for i in range(nt)]
    except Exception as e:
        out.inconclusive = f"preparation-raised:{type(e).__name__}"
        return out
    try:
        tokens_whole = tok.tokenise(whole)
        ref = _read(tok, tokens_whole)
    except Exception as e:
        out.inconclusive = f"single-call-raised:{type(e).__name__}"
        return out
    # classes
    starts = [b[0] for b in piece["bars"]]
    per_bar_onsets = []
    for k in range(nb):
        ons = set()
        for i in range(nt):
            ev, _ = O.seq_events(tb[i][k].sequence)
            ons |= {e[0] for e in ev if e[1] == O.NOTE_ON}
        per_bar_onsets.append(ons)
    empty_bar = any(not o for o in per_bar_onsets)
    first_tick_only = any(o == {0} for o in per_bar_onsets)
    sig_change = len({tuple(b[2]) for b in piece["bars"]}) > 1
    cut = any(any(n[2] < s < n[3] for s in starts) for t in piece["tracks"] for n in t["notes"])
    # partitions
    if case["all_partitions"] and nb <= 6:
        parts = [[bool(b) for b in bits] for bits in itertools.product([0, 1], repeat=max(0, nb - 1))]
    else:
        parts = [[True] * (nb - 1), [False] * (nb - 1)] + [c[:max(0, nb - 1)] for c in case["cuts"]]
    seen = set()
    multi = False
    for p in parts:
        key = tuple(p)
        if key in seen:
            continue
        seen.add(key)
        groups, cur = [], [0]
        for k in range(1, nb):
            if p[k - 1]:
                groups.append(cur)
                cur = []
            cur.append(k)
        groups.append(cur)
        multi = multi or len(groups) >= 2
        state = {}
        tokens = []
        try:
            for g in groups:
                join = _concat if case["route"] == "raw" else Bar.to_sequence
                chunk = [join([tb[i][k].copy() for k in g]) for i in range(nt)]
                tokens.extend(tok.tokenise(chunk, state_dict=state))
        except Exception as e:
            out.fail(f"chunked-tokenise-raises:{type(e).__name__}", f"groups {groups}: {e}; cfg {cfg}")
            return out
        missing = [t for t in tokens if t not in tok.dictionary]
        if missing:
            out.fail("chunked-token-not-in-vocabulary", f"{missing[:3]} groups {groups}")
            return out
        try:
            got = _read(tok, tokens)
        except O.Malformed as e:
            out.fail("malformed-output", str(e))
            return out
        except Exception as e:
            out.fail(f"chunked-detokenise-raises:{type(e).__name__}", f"{e} groups {groups}")
            return out
        for i in range(nt):
            if got[i] != ref[i]:
                what = "notes" if got[i][0] != ref[i][0] or got[i][1] != ref[i][1] else "bar-grid" if got[i][2] != ref[i][2] else "duration"
                out.fail(f"chunked-differs:{what}", f"track {i} groups {groups}: single call {ref[i]} chunked {got[i]}; "
                                                     f"tokens single {tokens_whole[:50]} chunked {tokens[:50]} cfg {cfg}")
                return out
    out.nontrivial = multi and (sig_change or empty_bar or first_tick_only or cut)
    out.label("route=" + case["route"], f"bars={nb}", f"partitions={len(seen)}",
              *(["stray-mid-bar-signature"] if piece.get("stray_signature") else []),
              *[l for l, c in (("sig-change", sig_change), ("empty-bar", empty_bar), ("first-tick-only-bar", first_tick_only),
                               ("cut-note", cut)) if c])
    return out
