"""C04 — the absolute and the relative view of a Sequence never diverge under any history."""
from hypothesis import strategies as st

from pbt import build, gens, ops, oracles as O
from pbt.runner import Outcome

ID = "C04"
MIN_NONTRIVIAL = 0.3
RULE = ("Hypothesis: histories = op lists (1-30 steps) over the full public alphabet (add_absolute_message, add_relative_message "
        "with index, concatenate, merge, cutoff, normalise, overwrite_absolute/relative_messages, pad, set_channel, scale (integer factors, and 1/2, 1/4 with no / own / foreign meta sequence), "
        "transpose, quantise, quantise_note_lengths, quantise_and_normalise, iteration of messages_abs()/messages_rel() with "
        "edits, early break and reads of the other view inside the loop, copy (continue on the copy), refresh, legal "
        "invalidate_abs/rel, reads of .abs/.rel, read-only getters incl. split/equals/==) applied to one Sequence that starts "
        "from any construction route, i.e. from every freshness state. Oracle after every step: (i) readable (not both views "
        "stale, both accessors work on a replica); (ii) passive agreement: if both private views are marked fresh their "
        "canonical content and duration are equal; (iii) conversion: replica.abs and replica.rel agree; (iv) a clean replica "
        "holding copies of only the fresh view(s) receives the same operation: equal return value, equal exception type, "
        "equal content afterwards; (v) direct model for simple operations (add, pad, set_channel, overwrite, scale, reads, "
        "no-wrap transpose). Non-trivial: >= 4 executed steps, a mutator executed from a state in which the view it works "
        "on was stale, and at least one read of each view. Distinct by case digest.")
RULE = RULE + " Rounds e-g: note-offs with release velocities, INTERNAL marker messages through add_absolute_message / overwrite_absolute_messages, rests written as two WAITs."
RULE = RULE + " Round h: zero-tick waits."
RULE = RULE + " Round i: split followed by in-place edits of every piece."
RULE = RULE + " Round j: silent notes."
RULE = RULE + " Round k: SEQUENCE_CONTROL messages."
ASSUMPTIONS = ["mutators are never interleaved with an open messages_*() generator (documented as illegal)",
               "edits through messages_abs() never change `time`; invalidate_* is only called when the other view is fresh",
               "an operation that raises identically on the object and on its clean replica ends the history as inconclusive"]
TIERS = {"quick": dict(shards=8, examples=500, alt_ppqn=[480], alt_shards=2),
         "thorough": dict(size=2, shards=16, examples=8000, alt_ppqn=[480, 7, 1000], alt_shards=2)}

ABS_OPS = {"add_abs", "cutoff", "merge", "quantise", "qnl", "qan", "it_abs", "read_abs"}
REL_OPS = {"add_rel", "concatenate", "normalise", "pad", "set_channel", "scale", "scale_down", "transpose", "it_rel", "read_rel"}
PURE = {"read_abs", "read_rel", "refresh", "inval_abs", "inval_rel", "getters", "copy", "split_edit"}


@st.composite
def _case(draw, size=1):
    init = draw(gens.seqspec(meta=gens.meta_events(max_tick=60, max_events=2), channels=(0, 1), pitches=(60, 61, 62),
                             max_notes=4, max_len=30, max_gap=20, start_max=20))
    n = draw(st.one_of(st.integers(1, 30 * size), st.integers(6, 30 * size)))
    return {"init": init, "ops": draw(st.lists(ops.op_strategy(ops.ALL_OPS), min_size=n, max_size=n))}


def strategy(params, shard, nshards):
    # thorough tier: odd shards draw larger cases (size 2), even shards keep the small, dense ones
    return _case(size=params.get("size", 1) if shard % 2 else 1)


def _state(s):
    return ("A" if not s._abs_stale else "") + ("R" if not s._rel_stale else "")


def _content(s):
    return O.seq_canon(s)


def _model(out, name, a, before, after, tag):
    """direct model of simple operations on canonical content (events sorted, duration)"""
    ev0, d0 = before
    ev1, d1 = after
    if name in PURE or (name in ("it_abs", "it_rel") and not a["edits"]):
        if before != after:
            out.fail(f"content-changed-by-read:{name}", f"{tag}: {before} -> {after}")
    elif name == "pad":
        if ev1 != ev0 or d1 != max(d0, a["n"]):
            out.fail("model:pad", f"{tag}: pad({a['n']}) {before} -> {after}")
    elif name == "set_channel":
        want = sorted(((e[0], e[1], a["c"]) + tuple(e[3:]) for e in ev0), key=O._sortkey)
        if ev1 != want or d1 != d0:
            out.fail("model:set_channel", f"{tag}: set_channel({a['c']}) {before} -> {after}")
    elif name == "scale" and not a["q"]:
        want = sorted(((e[0] * a["k"],) + tuple(e[1:]) for e in ev0), key=O._sortkey)
        if ev1 != want or d1 != d0 * a["k"]:
            out.fail("model:scale", f"{tag}: scale({a['k']}) {before} -> {after}")
    elif name == "add_abs":
        m = ops.msg(a["m"], True)
        # (an INTERNAL marker is no event; it only extends the duration)
        want = sorted(ev0 + ([O.ev_tuple(m.time, m)] if a["m"][0] != "cap" else []), key=O._sortkey)
        if ev1 != want or d1 != max(d0, m.time):
            out.fail("model:add_absolute_message", f"{tag}: {a['m']} {before} -> {after}")
    elif name == "add_rel" and a["i"] is None:
        m = ops.msg(a["m"], False)
        if a["m"][0] == "w":
            if ev1 != ev0 or d1 != d0 + a["m"][1]:
                out.fail("model:add_relative_message", f"{tag}: {a['m']} {before} -> {after}")
        else:
            want = sorted(ev0 + [O.ev_tuple(d0, m)], key=O._sortkey)
            if ev1 != want or d1 != d0:
                out.fail("model:add_relative_message", f"{tag}: {a['m']} {before} -> {after}")
    elif name == "ow_abs":
        msgs = [ops.msg(m, True) for m in a["msgs"]]
        want = (sorted((O.ev_tuple(m.time, m) for m in msgs if O._kind(m) != "internal"), key=O._sortkey),
                max([m.time for m in msgs], default=0))
        if after != want:
            out.fail("model:overwrite_absolute_messages", f"{tag}: want {want} got {after}")
    elif name == "ow_rel":
        from pbt.sut import RelativeSequence
        want = O.canon_rel(RelativeSequence([ops.msg(m, False) for m in a["msgs"]]))
        if after != want:
            out.fail("model:overwrite_relative_messages", f"{tag}: want {want} got {after}")
    elif name == "transpose":
        pitches = [e[3] for e in ev0 if e[1] in (O.NOTE_ON, O.NOTE_OFF)]
        if all(21 <= p + a["n"] <= 108 for p in pitches) and not any(e[1] == O.KS for e in ev0):
            want = sorted(((e[0], e[1], e[2], e[3] + a["n"]) + tuple(e[4:]) if e[1] in (O.NOTE_ON, O.NOTE_OFF) else e for e in ev0),
                          key=O._sortkey)
            if ev1 != want or d1 != d0:
                out.fail("model:transpose", f"{tag}: transpose({a['n']}) {before} -> {after}")


def check(case):
    out = Outcome()
    try:
        seq = build.sequence(case["init"])
        _content(seq)
    except Exception as e:
        out.inconclusive = f"input-construction-raised:{type(e).__name__}"
        return out
    executed = 0
    stale_start = False
    read_a = read_r = False
    for step, (name, a) in enumerate(case["ops"]):
        st0 = _state(seq)
        tag = f"step {step} {name} from state {st0!r} after {[o[0] for o in case['ops'][:step]]}"
        try:
            before = _content(seq)
            rep = build.replica(seq)
        except O.Malformed as e:
            out.fail("malformed-content", f"{tag}: {e}")
            return out
        if (name in ABS_OPS and "A" not in st0) or (name in REL_OPS and "R" not in st0):
            if name not in ("read_abs", "read_rel"):
                stale_start = True
        e1 = e2 = None
        r1 = r2 = None
        try:
            r1 = ops.apply(seq, [name, a])
        except Exception as e:
            e1 = e
        try:
            r2 = ops.apply(rep, [name, a])
        except Exception as e:
            e2 = e
        if (e1 is None) != (e2 is None) or (e1 is not None and type(e1) is not type(e2)):
            out.fail(f"exception-differs-from-clean-replica:{name}", f"{tag}: object {e1!r}, clean replica {e2!r}")
            return out
        if e1 is not None:
            if seq._abs_stale and seq._rel_stale:
                out.fail(f"unreadable-after-exception:{name}", tag)
                break
            # the operation rejected the current content in the same way on the object and on its clean replica. If both
            # still hold the same content the history goes on (on the replica-checked object); otherwise it ends here.
            try:
                same = _content(seq) == _content(rep) and O.canon_abs(build.replica(seq).abs) == O.canon_rel(build.replica(seq).rel)
            except Exception:
                same = False
            out.label(f"raised:{name}")
            if not same:
                out.inconclusive = f"op-raised:{name}:{type(e1).__name__}"
                break
            continue
        if name == "scale_down":
            # halving odd tick values legitimately yields fractional ticks (the statement's tick model is integral):
            # such a history leaves the domain and ends here without a verdict
            try:
                _content(seq)
            except O.Malformed:
                out.inconclusive = "scale-down-fractional-ticks"
                break
        executed += 1
        out.label(name)
        if name in ("read_abs", "it_abs") or (name in ABS_OPS and name != "read_abs"):
            read_a = True
        if name in ("read_rel", "it_rel") or (name in REL_OPS and name != "read_rel"):
            read_r = True
        if isinstance(r1, tuple) and r1 and r1[0] == "REPLACE":
            seq, rep = r1[1], r2[1]
        elif r1 != r2:
            out.fail(f"return-value-differs-from-clean-replica:{name}", f"{tag}: {r1!r} vs {r2!r}")
            return out
        # (i) readable
        if seq._abs_stale and seq._rel_stale:
            out.fail(f"unreadable:{name}", f"{tag}: both views are stale")
            return out
        try:
            # (ii) passive agreement
            if not seq._abs_stale and not seq._rel_stale:
                ca, cr = O.canon_abs(seq._abs), O.canon_rel(seq._rel)
                if ca != cr:
                    out.fail(f"views-diverged:{name}", f"{tag}: abs {ca} rel {cr}")
                    return out
            after = _content(seq)
            # (iv) clean replica
            after_rep = _content(rep)
            if after != after_rep:
                out.fail(f"differs-from-clean-replica:{name}", f"{tag}: object {after} clean replica {after_rep}")
                return out
            # (iii) conversion in both directions
            probe = build.replica(seq)
            pa, pr = O.canon_abs(probe.abs), O.canon_rel(probe.rel)
            if pa != pr:
                out.fail(f"conversion-loses-content:{name}", f"{tag} state {_state(seq)!r}: abs {pa} rel {pr}")
                return out
            if pa != after:
                out.fail(f"conversion-changes-content:{name}", f"{tag}: raw {after} through accessors {pa}")
                return out
        except O.Malformed as e:
            out.fail(f"malformed-content:{name}", f"{tag}: {e}")
            return out
        except Exception as e:
            out.fail(f"unreadable:{name}", f"{tag}: reading raised {type(e).__name__}: {e}")
            return out
        # (v) direct model
        _model(out, name, a, before, after, tag)
        if out.violations:
            return out
    out.nontrivial = executed >= 4 and stale_start and read_a and read_r
    if stale_start:
        out.label("mutator-from-stale-view")
    return out
