"""C05 — quantise puts every event on the grid and keeps every note well-formed."""
from collections import defaultdict

from hypothesis import strategies as st

from pbt import build, gens, oracles as O
from pbt.common import read_views, bipartite_match, build_input
from pbt.runner import Outcome

ID = "C05"
MIN_NONTRIVIAL = 0.4
RULE_EXTRA = (" Round e-g additions: channel pools up to 15, silent (velocity 0) notes, SEQUENCE_CONTROL noise, far tick shifts, "
              "self-concatenated inputs, and histories in which the object was quantised before with another step list.")
RULE = ("Hypothesis: well-formed notes on 2 channels over 3-4 pitches (same pitch on both channels overlapping in time is "
        "forced in a third of the cases; very short notes 1-3 ticks and abutting notes are biased), ticks unconstrained, "
        "time/key signatures and control/program changes as non-note events, any construction route; step lists of 1-4 "
        "positive ints from {1..8,12,16,24,48} in any order, duplicates allowed, coarse grids favoured. Oracle (validity "
        "predicate on raw messages): every event tick divisible by some step; pairing automaton without anomaly, positive "
        "durations, no overlap per channel+pitch; non-note events conserved, each displaced <= max(step); every output "
        "note matched injectively to an input note of its key with both ends within max(step) and the same velocity; "
        "survival of isolated notes with the narrowest candidate sets. Non-trivial: >= 3 notes and (a note shorter than "
        "the smallest step, or the same pitch on two channels, or two notes of a key closer than max(step)). Distinct by "
        "case digest.")
RULE = RULE + RULE_EXTRA
RULE = RULE + " Round h: quantise() with the default step sizes, shifts beyond 2**53."
RULE = RULE + " Round k: the end of the quantised sequence must lie on the grid."
ASSUMPTIONS = ["inputs respect the library's tie convention (note-off before note-on of the same key on one tick)",
               "the trailing INTERNAL marker (total duration) is not an 'event' of the statement and is not checked"]
TIERS = {"quick": dict(shards=8, examples=1500, alt_ppqn=[480], alt_shards=2),
         "thorough": dict(fuzz_runs=20000, fuzz_shards=4, size=2, shards=16, examples=25000, alt_ppqn=[480, 7, 1000], alt_shards=2)}

STEP_POOL = [1, 2, 3, 4, 5, 6, 7, 8, 12, 16, 24, 48]


@st.composite
def _case(draw, size=1):
    pitches = draw(gens.pitch_pool([(60, 61, 62), (60, 61, 62, 64), (60,), (60, 61)]))
    notes = draw(gens.wellformed_notes(channels="pool", pitches=pitches, max_notes=10 * size, max_len=60, max_gap=50,
                                       start_max=60))
    if draw(st.integers(0, 2)) == 0 and notes:
        # same pitch on the other channel, overlapping in time with an existing note
        src = draw(st.sampled_from(notes))
        ch = 1 - src[0]
        on = max(0, src[2] + draw(st.integers(-5, 5)))
        off = on + draw(st.integers(1, 40))
        same = [n for n in notes if n[0] == ch and n[1] == src[1]]
        if all(off <= n[2] or n[3] <= on for n in same):
            notes = sorted(notes + [[ch, src[1], on, off, draw(st.integers(1, 127))]])
    meta = draw(gens.meta_events(max_tick=200, max_events=3, with_noise=True))
    spec = {"notes": notes, "meta": meta}
    spec.update(draw(gens.route()))
    end = max([n[3] for n in notes] + [m[1] for m in meta] + [0])
    spec["pad"] = draw(st.one_of(st.none(), st.just(end + draw(st.integers(0, 30)))))
    gens.late_notes(draw, spec, one_in=8)
    gens.far_shift(draw, spec, extra=(2 ** 60 + 5, 2 ** 56 + 1))       # (integer arithmetic must stay exact beyond 2**53)
    if draw(st.integers(0, 7)) == 0:
        spec["double"] = draw(st.sampled_from(["self", "fresh"]))     # the material twice: one message object, two positions
    steps = draw(st.one_of(
        st.sampled_from([[48], [24], [12], [16], [48, 24], [12, 16], [24, 16], [7], [5, 3], [8, 12], [48, 16], [6, 4]]),
        st.lists(st.sampled_from(STEP_POOL), min_size=1, max_size=4)))
    case = {"seq": spec, "steps": list(steps)}
    if draw(st.integers(0, 9)) == 0:
        case["default_steps"] = True      # quantise() without an argument: the library's default step sizes
    if draw(st.integers(0, 4)) == 0:
        # a history on one object: it was quantised before with another step list (and possibly read); the statement is then
        # checked for the second call against the state the first one left behind
        case["pre_steps"] = draw(st.sampled_from([[8], [6], [12], [16], [5], [24, 16], [4]]))
        case["pre_read"] = draw(st.sampled_from([None, None, "abs", "rel"]))
    return case


def strategy(params, shard, nshards):
    # thorough tier: odd shards draw larger cases (size 2), even shards keep the small, dense ones
    return _case(size=params.get("size", 1) if shard % 2 else 1)


def _grid_near(t, steps):
    """all grid positions at minimal distance from t (every tie)"""
    cands = set()
    for s in steps:
        left = (t // s) * s
        cands.update((left, left + s))
    best = min(abs(c - t) for c in cands)
    return {c for c in cands if abs(c - t) == best}


def check(case):
    out = Outcome()
    steps = case["steps"]
    if case.get("default_steps"):
        from pbt.sut import PPQN
        if PPQN != 24:
            out.inconclusive = "default-step-sizes-at-another-ppqn"
            return out
        steps = [24, 12, 6, 16, 8, 4]       # quarter, eighth, sixteenth and their triplets at 24 ticks per quarter note
        out.label("default-step-sizes")
    smax = max(steps)
    built = build_input(out, case["seq"])
    if built is None:
        return out
    seq, ev0, d0, notes0 = built
    if case.get("pre_steps"):
        out.label("quantised-before")
        try:
            seq.quantise(list(case["pre_steps"]))
            if case.get("pre_read") == "rel":
                _ = seq.rel
            elif case.get("pre_read") == "abs":
                _ = seq.abs
            ev0, d0 = O.seq_events(seq)
            notes0, an0 = O.notes(ev0)
        except Exception as e:
            out.inconclusive = f"first-quantise-raised:{type(e).__name__}"
            return out
        if an0 or O.overlaps(notes0):
            out.inconclusive = "first-quantise-left-ill-formed-content"      # (a violation of the same property, reported by the plain cases)
            return out
    by_key0 = defaultdict(list)
    for n in notes0:
        by_key0[(n[0], n[1])].append(n)
    two_ch = any((1 - ch, p) in by_key0 for ch, p in by_key0)
    close = any(b[2] - a[3] < smax for lst in by_key0.values() for a, b in zip(lst, lst[1:]))
    short = any(n[3] - n[2] < min(steps) for n in notes0)
    out.nontrivial = len(notes0) >= 3 and (two_ch or close or short)
    out.label(*[l for l, c in (("same-pitch-two-channels", two_ch), ("close-notes", close), ("short-note", short)) if c])

    try:
        if case.get("default_steps"):
            seq.quantise()
        else:
            seq.quantise(list(steps))
    except Exception as e:
        out.fail("quantise-raises", f"{type(e).__name__}: {e}")
        return out
    res = read_views(out, seq, "quantise")
    if res is None:
        return out
    ev1, d1 = res
    # 1 on grid
    for e in ev1:
        if not any(e[0] % s == 0 for s in steps):
            out.fail("off-grid", f"event {e} steps {steps}")
            break
    if not any(d1 % s == 0 for s in steps):
        out.fail("end-off-grid", f"the quantised sequence ends on tick {d1} (before: {d0}), steps {steps}")
    # 2 well-formed
    notes1, an1 = O.notes(ev1)
    if an1:
        out.fail(f"ill-formed-output:{an1[0][0]}", f"steps {steps}: anomalies {an1[:4]} notes in {notes0} out {notes1}")
    ov = O.overlaps(notes1)
    if ov:
        out.fail("overlap-in-output", f"{ov[:2]}")
    # 3 non-note events conserved, displacement bounded
    groups0 = defaultdict(list)
    groups1 = defaultdict(list)
    for e in O.others(ev0):
        groups0[e[1:]].append(e[0])
    for e in O.others(ev1):
        groups1[e[1:]].append(e[0])
    if {k: len(v) for k, v in groups0.items()} != {k: len(v) for k, v in groups1.items()}:
        out.fail("non-note-events-changed", f"{O.others(ev0)} -> {O.others(ev1)}")
    else:
        for k in groups0:
            for a, b in zip(sorted(groups0[k]), sorted(groups1[k])):
                if abs(a - b) > smax:
                    out.fail("non-note-displacement", f"{k} moved {a} -> {b}, max step {smax}")
    # 4 every output note is a bounded displacement of an input note of its key
    by_key1 = defaultdict(list)
    for n in notes1:
        by_key1[(n[0], n[1])].append(n)
    for k, outs in by_key1.items():
        ins = by_key0.get(k, [])
        size, _ = bipartite_match(outs, ins, lambda o, i: abs(o[2] - i[2]) <= smax and abs(o[3] - i[3]) <= smax and o[4] == i[4])
        if size != len(outs):
            out.fail("note-not-from-input", f"key {k}: output {outs} input {ins} steps {steps}")
    # 5 survival of isolated notes
    for k, ins in by_key0.items():
        for idx, n in enumerate(ins):
            prev_gap = n[2] - ins[idx - 1][3] if idx > 0 else 10 ** 9
            next_gap = ins[idx + 1][2] - n[3] if idx + 1 < len(ins) else 10 ** 9
            if prev_gap < 2 * smax or next_gap < 2 * smax:
                continue
            starts = _grid_near(n[2], steps)
            ends = set()
            for s in steps:
                left = (n[3] // s) * s
                ends.update((left, left + s))
            if not all(any(e > s0 for e in ends) for s0 in starts):
                out.label("isolated-note-may-vanish")
                continue
            out.label("isolated-note-must-survive")
            hit = [o for o in by_key1.get(k, []) if abs(o[2] - n[2]) <= smax and abs(o[3] - n[3]) <= smax]
            if not hit:
                out.fail("isolated-note-lost", f"note {n} steps {steps}: output notes of key {by_key1.get(k, [])}")
            elif all(o[4] != n[4] for o in hit):
                out.fail("velocity-changed", f"note {n} -> {hit}")
    return out
