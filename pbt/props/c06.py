"""C06 — note-length quantisation yields only allowed durations and never moves onsets."""
from collections import defaultdict

from hypothesis import strategies as st

from pbt import build, gens, oracles as O
from pbt.common import read_views, build_input
from pbt.runner import Outcome

ID = "C06"
MIN_NONTRIVIAL = 0.4
RULE = ("Hypothesis: well-formed notes on 2 channels over 1-3 pitches (abutting repeated pitches and notes shorter than the "
        "smallest value biased), signatures and control/program changes as non-note events, any construction route; "
        "note-value lists of 0-5 positive ints from {1,2,3,4,5,6,7,8,12,16,24,36,48} in any order (duplicates allowed) x "
        "do_not_extend. Oracle (reference model): notes matched by (channel, pitch, onset); fit = values v with onset+v <= "
        "next onset of the key (and v <= old duration if do_not_extend); note present iff fit non-empty, then duration in "
        "argmin |v-old| over fit; velocity/onset/pitch/channel unchanged; non-note events identical; no overlap. "
        "Non-trivial: >= 2 notes of one key and >= 1 note whose duration is not in the list. Distinct by case digest.")
RULE = RULE + " Rounds e-g: gaps up to 70 and values 72/96, one 10^4..10^5-tick note, several control changes per tick, SEQUENCE_CONTROL noise, channel pools, silent notes, far tick shifts, self-concatenated inputs."
RULE = RULE + " Round h: default note values, standard_length, second-call histories, removal-only cases."
RULE = RULE + " Round k: untied insertion order (all note-ons first)."
ASSUMPTIONS = ["total duration (trailing INTERNAL marker) is not part of the statement"]
TIERS = {"quick": dict(shards=8, examples=1500, alt_ppqn=[480], alt_shards=2),
         "thorough": dict(fuzz_runs=20000, fuzz_shards=4, size=2, shards=16, examples=25000, alt_ppqn=[480, 7, 1000], alt_shards=2)}

VALUES = [1, 2, 3, 4, 5, 6, 7, 8, 12, 16, 24, 36, 48, 72, 96]


@st.composite
def _case(draw, size=1):
    pitches = draw(gens.pitch_pool([(60,), (60, 61), (60, 61, 62)]))
    notes = draw(gens.wellformed_notes(channels="pool", pitches=pitches, max_notes=9 * size, max_len=50,
                                       max_gap=draw(st.sampled_from([30, 30, 70]))))
    if draw(st.integers(0, 11)) == 0:
        # one very long sustained note (an organ point of 10^4..10^5 ticks), far away from every allowed value
        free = [p for p in (59, 63, 70) if p not in pitches] or [100]
        on = draw(st.integers(0, 40))
        notes = sorted(notes + [[draw(st.sampled_from([0, 1])), free[0], on, on + draw(st.sampled_from([65536, 70000, 100000, 20000, 65535 + 36])),
                                  draw(st.integers(1, 127))]])
    meta = draw(gens.meta_events(max_tick=150, max_events=3, with_noise=True))
    spec = {"notes": notes, "meta": meta}
    spec.update(draw(gens.route()))
    end = max([n[3] for n in notes] + [m[1] for m in meta] + [0])
    spec["pad"] = draw(st.one_of(st.none(), st.just(end + draw(st.integers(0, 30)))))
    gens.far_shift(draw, spec)
    if draw(st.integers(0, 7)) == 0:
        spec["double"] = draw(st.sampled_from(["self", "fresh"]))     # the material twice: one message object, two positions
    exact = draw(st.integers(0, 5)) == 0
    values = draw(st.one_of(st.lists(st.sampled_from(VALUES), min_size=0, max_size=5),
                            st.sampled_from([[24, 12, 6, 16, 8, 4, 36, 18, 9], [12], [4, 2], [48, 24], [3, 5], [96], [48], [96, 12]])))
    if exact and values and not spec.get("double"):
        # every note already has an allowed length, except 1-tick notes that fit no value: the call has nothing to adjust, it can
        # only remove (or leave everything alone)
        spec["notes"] = draw(gens.wellformed_notes(channels="pool", pitches=pitches, max_notes=6, lengths=sorted(set(values) | {1}),
                                                   max_gap=draw(st.sampled_from([0, 3, 30]))))
    if not spec.get("double") and not spec.get("late_notes") and draw(st.integers(0, 5)) == 0:
        # the absolute list was filled with all note-ons first: on a shared tick a note-on is stored ahead of the touching note-off
        spec["route"], spec["perm"], spec["post"], spec["untied"] = "abs_ins", [0], None, True
        spec.pop("split_waits", None)
    case = {"seq": spec, "values": list(values), "dne": draw(st.booleans())}
    if not exact and draw(st.integers(0, 9)) == 0:
        case["default_values"] = True     # note_values left at its default
    if draw(st.integers(0, 5)) == 0:
        # a history on one object: note lengths were quantised before with another value list (and possibly read)
        case["pre_values"] = draw(st.sampled_from([[12], [8, 4], [24, 6], [5], [36, 16]]))
        case["pre_read"] = draw(st.sampled_from([None, None, "abs", "rel"]))
    if draw(st.integers(0, 5)) == 0:
        case["standard_length"] = draw(st.sampled_from([1, 12, 24, 48]))      # only used for unclosed notes; there are none
    return case


def strategy(params, shard, nshards):
    # thorough tier: odd shards draw larger cases (size 2), even shards keep the small, dense ones
    return _case(size=params.get("size", 1) if shard % 2 else 1)


def check(case):
    out = Outcome()
    values, dne = case["values"], case["dne"]
    kw = {}
    if case.get("default_values"):
        from pbt.sut import PPQN
        if PPQN != 24:
            out.inconclusive = "default-note-values-at-another-ppqn"
            return out
        values = [24, 12, 6, 16, 8, 4, 36, 18, 9]
        out.label("default-note-values")
    if case.get("standard_length"):
        kw["standard_length"] = case["standard_length"]
    built = build_input(out, case["seq"])
    if built is None:
        return out
    seq, ev0, d0, notes0 = built
    if case.get("pre_values"):
        out.label("quantised-before")
        try:
            seq.quantise_note_lengths(list(case["pre_values"]))
            if case.get("pre_read") == "rel":
                _ = seq.rel
            elif case.get("pre_read") == "abs":
                _ = seq.abs
            ev0, d0 = O.seq_events(seq)
            notes0, an0 = O.notes(ev0)
        except Exception as e:
            out.inconclusive = f"first-call-raised:{type(e).__name__}"
            return out
        if an0 or O.overlaps(notes0):
            out.inconclusive = "first-call-left-ill-formed-content"
            return out
    by_key = defaultdict(list)
    for n in notes0:
        by_key[(n[0], n[1])].append(n)
    out.nontrivial = any(len(v) >= 2 for v in by_key.values()) and any(n[3] - n[2] not in values for n in notes0)
    out.label("do-not-extend" if dne else "may-extend")
    try:
        if case.get("default_values"):
            seq.quantise_note_lengths(do_not_extend=dne, **kw)
        else:
            seq.quantise_note_lengths(list(values), do_not_extend=dne, **kw)
    except Exception as e:
        out.fail("quantise-note-lengths-raises", f"{type(e).__name__}: {e}")
        return out
    res = read_views(out, seq, "quantise_note_lengths")
    if res is None:
        return out
    ev1, d1 = res
    notes1, an1 = O.notes(ev1)
    if an1:
        out.fail(f"ill-formed-output:{an1[0][0]}", f"{an1[:4]}")
    if O.overlaps(notes1):
        out.fail("overlap-in-output", f"{O.overlaps(notes1)[:2]}")
    if O.others(ev1) != O.others(ev0):
        out.fail("non-note-events-changed", f"{O.others(ev0)} -> {O.others(ev1)}")
    got = defaultdict(list)
    for n in notes1:
        got[(n[0], n[1], n[2])].append(n)
    known = {(n[0], n[1], n[2]) for n in notes0}
    for k, lst in got.items():
        if k not in known or len(lst) > 1:
            out.fail("note-invented-or-moved", f"output note(s) {lst} have no input note with that channel/pitch/onset; input {notes0}")
    for key, lst in by_key.items():
        for i, n in enumerate(lst):
            old = n[3] - n[2]
            nxt = lst[i + 1][2] if i + 1 < len(lst) else None
            fit = [v for v in values if (nxt is None or n[2] + v <= nxt) and (not dne or v <= old)]
            res_n = got.get((n[0], n[1], n[2]), [])
            if not fit:
                out.label("note-must-vanish")
                if res_n:
                    out.fail("note-kept-without-fitting-value", f"{n} values {values} dne {dne} next onset {nxt}: got {res_n}")
                continue
            if not res_n:
                out.fail("note-removed-although-a-value-fits", f"{n} values {values} dne {dne} next onset {nxt} fit {fit}")
                continue
            r = res_n[0]
            dur = r[3] - r[2]
            if r[4] != n[4]:
                out.fail("velocity-changed", f"{n} -> {r}")
            if dur not in values:
                out.fail("duration-not-allowed", f"{n} -> {r}, values {values}")
            elif dne and dur > old:
                out.fail("extended-despite-do-not-extend", f"{n} -> {r}")
            elif dur not in fit:
                out.fail("duration-does-not-fit", f"{n} -> {r}, fit {fit}, next onset {nxt}")
            else:
                best = min(abs(v - old) for v in fit)
                if abs(dur - old) != best:
                    out.fail("not-closest-duration", f"{n} -> {r}, fit {fit}")
                if old not in values:
                    out.label("duration-changed")
    return out
