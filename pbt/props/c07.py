"""C07 — normalise returns a well-formed sequence with the same duration and sound."""
from collections import defaultdict

from hypothesis import strategies as st

from pbt import gens, oracles as O
from pbt.runner import Outcome
from pbt.sut import Message, MT, Sequence, RelativeSequence, Key

ID = "C07"
MIN_NONTRIVIAL = 0.5
RULE = ("Hypothesis: arbitrary relative message lists (<= 24 messages) over 2 channels x pitches {0,1,60,61} or pools with keyboard-size differences such as {0,1,109,110} (pitches equal to "
        "channel numbers included) with waits, note-ons, note-offs, repeated/alternating time and key signatures and trailing "
        "rests; in a third of the cases equal messages are one shared object (what concatenate([m, m]) produces); half of the cases are repaired into 'already paired' lists (open counter never negative, zero at the end) "
        "keeping nesting, overlap and re-triggers. Oracle: independent automaton over the output's relative messages in list "
        "order (strict on/off alternation per channel+pitch, closed at the end), no signature repeating the one in force, sum "
        "of waits unchanged; for paired input sounding-set equality (open-counter walk) and idempotence. Non-trivial: input "
        "contains a re-trigger, nested pair, orphan off, unclosed on or repeated signature. Distinct by case digest.")
RULE = RULE + " Round g: control changes (controllers 120, 123, 121, 64, 7, 0) and program changes between the notes."
RULE = RULE + " Round h: signature numerators 300/1000 and denominator 512 held by distinct int objects; velocities from a small pool."
RULE = RULE + " Round i: second phase on the same object (in-place edit keeping the message count, normalise again)."
ASSUMPTIONS = ["which velocity a fused note keeps is not part of the statement",
               "non-note, non-signature events are not generated (their treatment is not part of the statement)"]
TIERS = {"quick": dict(shards=8, examples=2500, alt_ppqn=[480], alt_shards=2),
         "thorough": dict(fuzz_runs=20000, fuzz_shards=4, size=2, shards=16, examples=30000, alt_ppqn=[480, 7, 1000], alt_shards=2)}

PITCHES = [0, 1, 60, 61]


@st.composite
def _case(draw, size=1):
    pitches = draw(st.sampled_from([PITCHES, PITCHES, PITCHES, [0, 1, 109, 110], [5, 92, 93, 114], [0, 15, 127, 108]]))
    n = draw(st.integers(0, 24 * size))
    msg = st.one_of(
        st.tuples(st.just("w"), st.integers(1, 12)),
        st.tuples(st.just("on"), st.integers(0, 1), st.sampled_from(pitches), st.one_of(st.integers(1, 127), st.sampled_from([64, 64, 100]))),
        st.tuples(st.just("off"), st.integers(0, 1), st.sampled_from(pitches)),
        st.tuples(st.just("on"), st.integers(0, 1), st.sampled_from(pitches), st.one_of(st.integers(1, 127), st.sampled_from([64, 64, 100]))),
        st.tuples(st.just("off"), st.integers(0, 1), st.sampled_from(pitches)),
        st.tuples(st.just("ts"), st.sampled_from([3, 4, 3, 4, 300, 1000]), st.sampled_from([4, 8, 4, 8, 512]), st.integers(0, 1)),
        st.tuples(st.just("ks"), st.sampled_from(["C", "G", "Db"]), st.integers(0, 1)),
        # control / program changes between the notes (incl. the 'all sound off' / 'all notes off' controller numbers): they are
        # no note events and must not change which notes sound
        st.tuples(st.just("cc"), st.integers(0, 1), st.sampled_from([120, 123, 64, 7, 0, 121]), st.integers(0, 127)),
        st.tuples(st.just("pc"), st.integers(0, 1), st.integers(0, 127)),
    )
    msgs = [list(m) for m in draw(st.lists(msg, min_size=n, max_size=n))]
    if draw(st.booleans()):
        # repair into an already-paired list
        cnt = defaultdict(int)
        rep = []
        for m in msgs:
            if m[0] == "on":
                cnt[(m[1], m[2])] += 1
            elif m[0] == "off":
                if cnt[(m[1], m[2])] == 0:
                    continue
                cnt[(m[1], m[2])] -= 1
            rep.append(m)
        tail = [["off", k[0], k[1]] for k, c in sorted(cnt.items()) for _ in range(c)]
        if tail and draw(st.booleans()):
            rep.append(["w", draw(st.integers(1, 9))])
        order = draw(st.permutations(list(range(len(tail))))) if tail else []
        rep.extend(tail[i] for i in order)
        if draw(st.booleans()):
            rep.append(["w", draw(st.integers(1, 9))])
        msgs = rep
    case = {"msgs": msgs, "share": draw(st.sampled_from([False, False, True]))}
    if not case["share"]:
        case["then"] = draw(st.sampled_from([None, None, "set_channel", "same_pitch"]))
    return case


def strategy(params, shard, nshards):
    # thorough tier: odd shards draw larger cases (size 2), even shards keep the small, dense ones
    return _case(size=params.get("size", 1) if shard % 2 else 1)


def _build(msgs, share=False):
    out = []
    memo = {}
    for m in msgs:
        if share and tuple(m) in memo:
            # the same Message object occurs again (what concatenate([motif, motif]) produces)
            out.append(memo[tuple(m)])
            continue
        n_before = len(out)
        if m[0] == "w":
            out.append(Message(message_type=MT.WAIT, time=m[1]))
        elif m[0] == "on":
            out.append(Message(message_type=MT.NOTE_ON, channel=m[1], note=m[2], velocity=m[3]))
        elif m[0] == "off":
            out.append(Message(message_type=MT.NOTE_OFF, channel=m[1], note=m[2]))
        elif m[0] == "ts":
            # (int(str(..)): every message gets its own int objects, as values parsed from a file or computed separately would be)
            out.append(Message(message_type=MT.TIME_SIGNATURE, channel=m[3], numerator=int(str(m[1])), denominator=int(str(m[2]))))
        elif m[0] == "ks":
            out.append(Message(message_type=MT.KEY_SIGNATURE, channel=m[2], key=Key(m[1])))
        elif m[0] == "cc":
            out.append(Message(message_type=MT.CONTROL_CHANGE, channel=m[1], control=m[2], velocity=m[3]))
        elif m[0] == "pc":
            out.append(Message(message_type=MT.PROGRAM_CHANGE, channel=m[1], program=m[2]))
        if share and len(out) > n_before:
            memo[tuple(m)] = out[-1]
    return out


def _classify(msgs):
    """(paired?, set of ill-formedness classes present in the input)"""
    cnt = defaultdict(int)
    classes = set()
    paired = True
    ts = ks = None
    for m in msgs:
        if m[0] == "on":
            k = (m[1], m[2])
            if cnt[k] > 0:
                classes.add("retrigger-or-nested")
            cnt[k] += 1
        elif m[0] == "off":
            k = (m[1], m[2])
            if cnt[k] == 0:
                classes.add("orphan-off")
                paired = False
            else:
                cnt[k] -= 1
        elif m[0] == "ts":
            if (m[1], m[2]) == ts:
                classes.add("repeated-ts")
            ts = (m[1], m[2])
        elif m[0] == "ks":
            if m[1] == ks:
                classes.add("repeated-ks")
            ks = m[1]
    if any(c > 0 for c in cnt.values()):
        classes.add("unclosed")
        paired = False
    return paired, classes


def _verify(out, ev, dur, dur_in, tag):
    _, anomalies = O.notes_in_list_order(ev)
    if anomalies:
        out.fail(f"{tag}ill-formed-output:{anomalies[0][0]}", f"anomalies {anomalies[:4]}")
    ts = ks = None
    for e in ev:
        if e[1] == O.TS:
            if (e[5], e[6]) == ts:
                out.fail(f"{tag}repeated-time-signature-kept", f"{e}")
            ts = (e[5], e[6])
        elif e[1] == O.KS:
            if e[7] == ks:
                out.fail(f"{tag}repeated-key-signature-kept", f"{e}")
            ks = e[7]
    if dur != dur_in:
        out.fail(f"{tag}duration-changed", f"{dur_in} -> {dur}")


def check(case):
    out = Outcome()
    msgs = case["msgs"]
    paired, classes = _classify(msgs)
    out.nontrivial = bool(classes)
    out.label("paired" if paired else "ill-formed", *sorted(classes))
    seq = Sequence(relative_sequence=RelativeSequence(_build(msgs, case.get("share", False))))
    if case.get("share"):
        out.label("shared-message-objects")
    ev_in, dur_in = O.rel_events(seq._rel)
    try:
        seq.normalise()
    except Exception as e:
        out.fail("normalise-raises", f"{type(e).__name__}: {e}")
        return out
    try:
        if seq._rel_stale:
            out.fail("relative-view-stale-after-normalise", "")
            return out
        ev, dur = O.rel_events(seq._rel)
    except O.Malformed as e:
        out.fail("malformed-output", str(e))
        return out
    _verify(out, ev, dur, dur_in, "")
    if paired:
        s_in = O.sounding_by_count(ev_in)
        s_out = O.sounding_by_count(ev)
        if s_in != s_out:
            out.fail("sounding-set-changed", f"lost {sorted(s_in - s_out)[:6]} gained {sorted(s_out - s_in)[:6]}")
        notes, _ = O.notes_in_list_order(ev)
        if O.overlaps(notes):
            out.fail("overlap-in-output", f"{O.overlaps(notes)[:2]}")
        # idempotence
        before = [(O._kind(m), m.channel, m.note, m.velocity, m.time, m.numerator, m.denominator, O._key(m.key))
                  for m in seq._rel._messages]
        try:
            seq.normalise()
            after = [(O._kind(m), m.channel, m.note, m.velocity, m.time, m.numerator, m.denominator, O._key(m.key))
                     for m in seq._rel._messages]
        except Exception as e:
            out.fail("second-normalise-raises", f"{type(e).__name__}: {e}")
            return out
        if O.canon(O.rel_events(seq._rel)) != O.canon((ev, dur)):
            out.fail("not-idempotent", f"{before} -> {after}")
    if case.get("then") and not out.violations:
        # history on the same object: an in-place edit that keeps the number of messages but can make the content ill-formed again
        # (two channels joined, pitches made equal), then normalise once more: the first clause must hold again
        out.label("edited-then-normalised-again:" + case["then"])
        try:
            if case["then"] == "set_channel":
                seq.set_channel(0)
            else:
                for m in seq.messages_rel():
                    if m.note is not None:
                        m.note = 60
            dur_mid = O.rel_events(seq._rel)[1]
            seq.normalise()
            ev2, dur2 = O.rel_events(seq._rel)
        except O.Malformed as e:
            out.fail("malformed-output", f"second phase: {e}")
            return out
        except Exception as e:
            out.fail("normalise-raises", f"second phase: {type(e).__name__}: {e}")
            return out
        _verify(out, ev2, dur2, dur_mid, "second-phase:")
    return out
