"""C08 — splitting a sequence conserves duration, sound and events with exact capacities."""
from hypothesis import strategies as st

from pbt import build, gens, oracles as O
from pbt.common import read_views, build_input
from pbt.runner import Outcome

ID = "C08"
MIN_NONTRIVIAL = 0.4
RULE = ("Hypothesis: well-formed notes on 2 channels over 2-3 pitches (same pitch on both channels allowed), leading/trailing "
        "rests, time/key signatures and control/program changes incl. on tick 0, on boundaries and on the final tick, any "
        "construction route; capacity lists of 1-5 positive ints built from absolute boundaries drawn from the note "
        "ends/onsets, meta ticks, the final tick and random ticks, so that sums fall below, at and above the duration. "
        "Oracle: <= len(caps)+1 pieces, every piece but the last exactly its capacity (last <= its capacity if it has one), "
        "durations sum to the source's, no anomaly (unclosed note) inside any piece, on a common clock the sounding set with "
        "velocities and the non-note events with ticks equal the source's; source content unchanged in both views. "
        "Non-trivial: a note crosses a boundary or an event sits exactly on a boundary. Distinct by case digest.")
RULE = RULE + " Rounds e-g: rests written as two WAITs, several control changes per tick, SEQUENCE_CONTROL noise, channel pools, silent notes, far tick shifts, self-concatenated inputs split at their period."
RULE = RULE + " Round h: the source was split before with other capacities."
RULE = RULE + " Round i: source quantised (bare call) after its relative view was read; late notes."
ASSUMPTIONS = ["an event exactly on a boundary may be in either adjacent piece (same absolute tick)"]
TIERS = {"quick": dict(shards=8, examples=1500, alt_ppqn=[480], alt_shards=2),
         "thorough": dict(fuzz_runs=20000, fuzz_shards=4, size=2, shards=16, examples=25000, alt_ppqn=[480, 7, 1000], alt_shards=2)}


@st.composite
def _case(draw, size=1):
    pitches = draw(gens.pitch_pool([(60, 61), (60, 61, 62), (60,)]))
    notes = draw(gens.wellformed_notes(channels="pool", pitches=pitches, max_notes=8 * size, max_len=70, max_gap=30))
    end_n = max([n[3] for n in notes] + [0])
    ticks_pool = sorted({0, end_n} | {n[2] for n in notes} | {n[3] for n in notes})
    meta = draw(st.one_of(gens.meta_events(max_tick=max(end_n, 1), max_events=3, with_noise=True),
                          gens.meta_events(max_events=3, with_noise=True, ticks=ticks_pool)))
    spec = {"notes": notes, "meta": meta}
    spec.update(draw(gens.route()))
    end = max([end_n] + [m[1] for m in meta])
    spec["pad"] = draw(st.one_of(st.none(), st.none(), st.just(end + draw(st.integers(1, 30)))))
    d = max(end, spec["pad"] or 0)
    if draw(st.integers(0, 7)) == 0:
        spec["double"] = draw(st.sampled_from(["self", "fresh"]))     # the material twice: one message object, two positions
    interesting = sorted({t for t in ticks_pool + [m[1] for m in meta] + [d] if t > 0})
    k = draw(st.integers(1, 5))
    pick = st.one_of(st.sampled_from(interesting), st.integers(1, d + 20)) if interesting else st.integers(1, d + 20)
    bounds = sorted(set(draw(st.lists(pick, min_size=k, max_size=k))))
    caps = [b - a for a, b in zip([0] + bounds, bounds)]
    tail = draw(st.sampled_from(["none", "extra", "drop", "hit-end"]))
    if tail == "extra":
        caps.append(draw(st.integers(1, 40)))
    elif tail == "drop" and len(caps) > 1:
        caps.pop()
    elif tail == "hit-end" and sum(caps) < d:
        caps.append(d - sum(caps))
    if spec.get("double") and draw(st.booleans()):
        caps = [max(1, d)] if draw(st.booleans()) else [max(1, d), max(1, d)]
    gens.late_notes(draw, spec, one_in=8)
    sh = gens.far_shift(draw, spec)
    if sh and caps:
        caps[0] += sh          # the content sits far from tick 0; boundaries keep their place relative to it
    case = {"seq": spec, "caps": caps}
    if draw(st.integers(0, 7)) == 0:
        case["pre_quantise"] = draw(st.sampled_from([[4], [6], [12, 8], [3]]))
    if draw(st.integers(0, 4)) == 0:
        case["pre_caps"] = draw(st.lists(st.integers(1, 60), min_size=0, max_size=3))
    return case


def strategy(params, shard, nshards):
    # thorough tier: odd shards draw larger cases (size 2), even shards keep the small, dense ones
    return _case(size=params.get("size", 1) if shard % 2 else 1)


def check(case):
    out = Outcome()
    caps = case["caps"]
    built = build_input(out, case["seq"])
    if built is None:
        return out
    seq, ev0, d0, notes0 = built
    if case.get("pre_quantise"):
        # history: the relative view is read, then the bare quantise() runs on the absolute side; what the absolute view holds
        # afterwards is the music that is split
        out.label("quantised-before")
        try:
            _ = seq.rel
            seq.quantise(list(case["pre_quantise"]))
            ev0, d0 = O.abs_events(seq._abs) if not seq._abs_stale else O.seq_events(seq)
            notes0, an0 = O.notes(ev0)
        except Exception as e:
            out.inconclusive = f"pre-quantise-raised:{type(e).__name__}"
            return out
        if an0 or O.overlaps(notes0):
            out.inconclusive = "pre-quantise-left-ill-formed-content"
            return out
    bset = set()
    acc = 0
    for c in caps:
        acc += c
        bset.add(acc)
    crossing = any(n[2] < b < n[3] for n in notes0 for b in bset)
    on_boundary = any(e[0] in bset for e in ev0)
    out.nontrivial = crossing or on_boundary
    out.label(*[l for l, c in (("note-crosses-boundary", crossing), ("event-on-boundary", on_boundary),
                               ("caps-sum<dur", sum(caps) < d0), ("caps-sum==dur", sum(caps) == d0),
                               ("caps-sum>dur", sum(caps) > d0)) if c])
    before = O.canon((ev0, d0))
    try:
        if case.get("pre_caps") is not None:
            # the same source was split before with other capacities (it must not have been changed by that)
            out.label("split-before")
            seq.split(list(case["pre_caps"]))
        pieces = seq.split(list(caps))
    except Exception as e:
        out.fail("split-raises", f"{type(e).__name__}: {e}")
        return out
    # source unchanged
    res = read_views(out, seq, "split (source)")
    if res is None:
        return out
    if O.canon(res) != before:
        out.fail("source-changed", f"{before} -> {O.canon(res)}")
    if len(pieces) > len(caps) + 1:
        out.fail("too-many-pieces", f"{len(pieces)} pieces for {len(caps)} capacities")
    offset = 0
    all_ev = []
    for i, p in enumerate(pieces):
        try:
            ev, d = O.seq_events(p)
        except O.Malformed as e:
            out.fail("malformed-output", f"piece {i}: {e}")
            return out
        last = i == len(pieces) - 1
        if i < len(caps):
            if not last and d != caps[i]:
                out.fail("piece-duration", f"piece {i} of {len(pieces)} lasts {d}, capacity {caps[i]} (caps {caps}, source {d0})")
            if last and d > caps[i]:
                out.fail("last-piece-exceeds-capacity", f"piece {i} lasts {d}, capacity {caps[i]}")
        _, an = O.notes(ev)
        if an:
            out.fail(f"piece-ill-formed:{an[0][0]}", f"piece {i}: {an[:4]} (caps {caps}, source notes {notes0})")
        all_ev.extend((e[0] + offset,) + tuple(e[1:]) for e in ev)
        offset += d
    if offset != d0:
        out.fail("durations-do-not-sum", f"pieces last {offset} in total, source {d0}")
    notes1, _ = O.notes(all_ev)
    s0, s1 = O.sounding_vel(notes0), O.sounding_vel(notes1)
    if set(s0) != set(s1):
        lost = sorted(set(s0) - set(s1))[:5]
        gained = sorted(set(s1) - set(s0))[:5]
        out.fail("sounding-set-changed", f"lost {lost} gained {gained} caps {caps} source notes {notes0}")
    elif s0 != s1:
        diff = [(k, s0[k], s1[k]) for k in s0 if s0[k] != s1[k]][:4]
        out.fail("velocity-changed", f"{diff}")
    if O.others(all_ev) != O.others(ev0):
        out.fail("non-note-events-changed", f"{O.others(ev0)} -> {O.others(all_ev)} caps {caps} source duration {d0}")
    return out
