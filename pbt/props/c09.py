"""C09 — bar splitting follows the time signatures and conserves the music."""
from hypothesis import strategies as st

from pbt import build, gens, oracles as O
from pbt.common import build_input
from pbt.runner import Outcome
from pbt.sut import Sequence, Key

ID = "C09"
MIN_NONTRIVIAL = 0.4
RULE = ("Hypothesis: bar-grid pieces of 1-6 planned bars with 1-4 tracks; meta_track_index drawn; time-signature and key "
        "changes only on bar starts that the meta track extends beyond; tracks shorter/longer than the meta track, empty "
        "tracks, trailing rests, notes crossing one or several bar lines, multi-channel tracks (same pitch on two channels), "
        "both settings of quantise_note_lengths (with re-quantisation on, note durations come from the default note values). "
        "Oracle: every track gets the same number of bars = number of grid bars starting before the longest duration (one "
        "for an all-empty input); bar k lasts exactly the grid length, carries the grid's signature as attributes and as its "
        "only time-signature event at tick 0, and the key in force at its start; bars laid end to end reproduce the track's "
        "sounding set with velocities exactly (re-quantisation off) or a subset in which every note that crosses no bar "
        "line is reproduced exactly (on); inputs unchanged in both views. Non-trivial: >= 2 bars and (signature change, key "
        "change, cut note or unequal track lengths). Distinct by case digest.")
RULE = RULE + " Round h: the inputs were split into bars before with the other re-quantisation setting."
RULE = RULE + " Round j: restated keys on later bar lines."
RULE = RULE + " Round k: silent notes."
ASSUMPTIONS = ["signature/key changes fall on bar boundaries of the meta track (the statement's precondition)",
               "no event sits exactly on the final tick of a track that ends on a bar line (would start one more, empty, bar)"]
TIERS = {"quick": dict(shards=8, examples=1500), "thorough": dict(size=2, shards=16, examples=15000)}

SIGS = [(4, 4), (3, 4), (2, 4), (6, 8), (3, 8), (5, 8), (2, 2), (1, 4), (12, 8), (7, 8), (4, 4), (2, 8),
        (3, 16), (5, 16), (7, 32), (6, 64), (2, 64), (10, 64), (12, 128), (1, 8), (1, 1), (4, 3), (5, 6)]
DEFAULT_VALUES = [24, 12, 6, 16, 8, 4, 36, 18, 9]


@st.composite
def _case(draw, size=1):
    nbars = draw(st.integers(1, 6 + 3 * (size - 1)))
    ntracks = draw(st.integers(1, 4))
    m = draw(st.integers(0, ntracks - 1))
    requant = draw(st.booleans())
    meta_bars = draw(st.integers(1, nbars))           # bars the meta track extends into
    explicit_first = draw(st.booleans())
    cur = draw(st.sampled_from(SIGS)) if explicit_first else (4, 4)
    sig_events = [["ts", 0, cur[0], cur[1]]] if explicit_first else []
    key_events = []
    bars = []
    t = 0
    for b in range(nbars):
        if 0 < b < meta_bars and draw(st.integers(0, 2)) == 0:
            new = draw(st.sampled_from(SIGS).filter(lambda s: s != cur))
            cur = new
            sig_events.append(["ts", t, cur[0], cur[1]])
        if b < meta_bars and draw(st.integers(0, 3)) == 0:
            # a new key, or (a third of the time) the key already in force written again - hand-built tracks restate it
            restate = key_events and draw(st.integers(0, 2)) == 0
            key_events.append(["ks", t, key_events[-1][2] if restate else draw(st.sampled_from(gens.KEYS))])
        length = 96 * cur[0] // cur[1]
        bars.append((t, length))
        t += length
    total = t
    meta_lo = bars[meta_bars - 1][0] + 1
    meta_hi = bars[meta_bars - 1][0] + bars[meta_bars - 1][1]
    tracks = []
    for i in range(ntracks):
        if i == m:
            dur = draw(st.one_of(st.just(meta_hi), st.integers(meta_lo, meta_hi)))
        else:
            dur = draw(st.one_of(st.just(0), st.just(total), st.sampled_from([b[0] + b[1] for b in bars]),
                                 st.integers(0, total + 60)))
        multi = draw(st.integers(0, 3)) == 0
        lengths = DEFAULT_VALUES if requant else None
        notes = draw(gens.wellformed_notes(channels=(0, 1) if multi else (i,), pitches=draw(gens.pitch_pool([(60, 62, 64)])), max_notes=7, silent=True,
                                           max_len=120, max_gap=90, start_max=max(0, dur), lengths=lengths))
        notes = [n for n in notes if n[3] <= dur]
        meta = (sig_events + key_events) if i == m else []
        if i != m and draw(st.integers(0, 4)) == 0 and dur > 1:
            meta = [["pc", draw(st.integers(0, dur - 1)), draw(st.integers(0, 100))]]
        spec = {"notes": notes, "meta": [list(e) for e in meta]}
        spec.update(draw(gens.route()))
        end = max([n[3] for n in notes] + [e[1] for e in meta] + [0])
        spec["pad"] = dur if dur > end or draw(st.booleans()) else None
        if i == m and (spec["pad"] or 0) < meta_lo and end < meta_lo:
            spec["pad"] = dur
        tracks.append(spec)
    return {"tracks": tracks, "meta_index": m, "requant": requant, "split_before": draw(st.integers(0, 4)) == 0}


def strategy(params, shard, nshards):
    # thorough tier: odd shards draw larger cases (size 2), even shards keep the small, dense ones
    return _case(size=params.get("size", 1) if shard % 2 else 1)


def check(case):
    out = Outcome()
    specs = case["tracks"]
    m = case["meta_index"]
    seqs, contents = [], []
    for s in specs:
        built = build_input(out, s)
        if built is None:
            return out
        seqs.append(built[0])
        contents.append((built[1], built[2], built[3]))
    D = max(c[1] for c in contents)
    meta_ev = contents[m][0]
    ts_pts = [(e[0], (e[5], e[6])) for e in meta_ev if e[1] == O.TS]
    ks_pts = sorted((e[0], e[7]) for e in meta_ev if e[1] == O.KS)
    grid = O.grid(ts_pts, D)
    starts = {g[0] for g in grid}
    cut = any(any(n[2] < b < n[3] for b in starts) for c in contents for n in c[2])
    unequal = len({c[1] for c in contents}) > 1
    out.nontrivial = len(grid) >= 2 and (len(ts_pts) >= 2 or len(set(v for _, v in ks_pts)) >= 1 or cut or unequal)
    out.label(f"bars={len(grid)}", "requant" if case["requant"] else "no-requant",
              *[l for l, c in (("signature-change", len(ts_pts) >= 2), ("key-change", bool(ks_pts)), ("cut-note", cut),
                               ("unequal-tracks", unequal)) if c])
    before = [O.canon((c[0], c[1])) for c in contents]
    try:
        if case.get("split_before"):
            # the same input objects were split into bars before, with the other re-quantisation setting
            out.label("split-before")
            Sequence.sequences_split_bars(seqs, meta_track_index=m, quantise_note_lengths=not case["requant"])
        tracks_bars = Sequence.sequences_split_bars(seqs, meta_track_index=m, quantise_note_lengths=case["requant"])
    except Exception as e:
        out.fail("split-bars-raises", f"{type(e).__name__}: {e}")
        return out
    # inputs unchanged
    for i, s in enumerate(seqs):
        try:
            rep = build.replica(s)
            ca, cr = O.canon_abs(rep.abs), O.canon_rel(rep.rel)
        except Exception as e:
            out.fail("input-unreadable-after-split", f"track {i}: {type(e).__name__}: {e}")
            return out
        if ca != before[i] or cr != before[i]:
            out.fail("input-changed", f"track {i}: {before[i]} -> abs {ca} rel {cr}")
    if len(tracks_bars) != len(specs):
        out.fail("track-count", f"{len(tracks_bars)} bar lists for {len(specs)} tracks")
        return out
    counts = [len(b) for b in tracks_bars]
    if len(set(counts)) != 1 or counts[0] != len(grid):
        out.fail("bar-count", f"bar counts {counts}, grid has {len(grid)} bars {grid} for longest duration {D}")
        return out
    for i, bars in enumerate(tracks_bars):
        offset = 0
        laid = []
        for k, bar in enumerate(bars):
            start, length, sig = grid[k]
            try:
                ev, d = O.seq_events(bar.sequence)
            except O.Malformed as e:
                out.fail("malformed-output", f"track {i} bar {k}: {e}")
                return out
            if d != length:
                out.fail("bar-length", f"track {i} bar {k} lasts {d}, grid says {length} ({sig}); grid {grid}")
            if (bar.time_signature_numerator, bar.time_signature_denominator) != sig:
                out.fail("bar-signature", f"track {i} bar {k} carries {bar.time_signature_numerator}/{bar.time_signature_denominator}, grid {sig}")
            ts = [e for e in ev if e[1] == O.TS]
            if len(ts) != 1 or ts[0][0] != 0 or (ts[0][5], ts[0][6]) != sig:
                out.fail("bar-signature-event", f"track {i} bar {k}: signature events {ts}, grid {sig}")
            want_key = O.value_at(ks_pts, start)
            have_key = bar.key_signature.value if isinstance(bar.key_signature, Key) else bar.key_signature
            if have_key != want_key:
                out.fail("bar-key", f"track {i} bar {k} (start {start}) carries key {have_key!r}, in force {want_key!r} ({ks_pts})")
            _, an = O.notes(ev)
            if an:
                out.fail(f"bar-ill-formed:{an[0][0]}", f"track {i} bar {k}: {an[:3]}")
            laid.extend((e[0] + offset,) + tuple(e[1:]) for e in ev)
            offset += d
        notes_in = contents[i][2]
        notes_out, _ = O.notes(laid)
        s_in, s_out = O.sounding_vel(notes_in), O.sounding_vel(notes_out)
        if not case["requant"]:
            if s_in != s_out:
                lost = sorted(set(s_in) - set(s_out))[:5]
                gained = sorted(set(s_out) - set(s_in))[:5]
                out.fail("sounding-set-changed", f"track {i}: lost {lost} gained {gained}; notes {notes_in} grid {grid}")
        else:
            extra = {k: v for k, v in s_out.items() if s_in.get(k) != v}
            if extra:
                out.fail("sound-invented", f"track {i}: {sorted(extra.items())[:5]}")
            for n in notes_in:
                if not any(n[2] < b < n[3] for b in starts) and n not in notes_out:
                    out.fail("uncut-note-changed", f"track {i}: {n} crosses no bar line but bars hold {[x for x in notes_out if x[1] == n[1]]}")
                    break
    return out
