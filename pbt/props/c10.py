"""C10 — a Bar always lasts exactly its time signature, or its construction fails."""
import math
import os

from hypothesis import strategies as st

from pbt import build, gens, oracles as O
from pbt.common import build_input
from pbt.runner import Outcome
from pbt.sut import Bar, BarException, Key, Message, MT, Sequence, RelativeSequence

ID = "C10"
MIN_NONTRIVIAL = 0.5
RULE = ("Hypothesis: (sequence, numerator, denominator in {1,2,3,4,6,8,12,16,24,32,48,64,96,128} with 96*num/den a whole number of ticks, key or None); the sequence's duration is drawn "
        "relative to the capacity 96*num/den (shorter, equal, +1 tick, much longer, and between the capacity and 24x the "
        "capacity, where a quarter-note/tick confusion hides); 0, 1 matching, 1 conflicting, 2 different, matching + "
        "conflicting or duplicate identical signature events at tick 0 or mid-sequence; any construction route; a sixth of the cases holds zero-length grace notes in a hand-written relative list; "
        "the bar's absolute view or duration is read between construction and copy in half of the cases. Oracle: "
        "outcome is BarException, or a bar lasting exactly the capacity whose relative list starts with its only "
        "time-signature event equal to (num, den); BarException is required when the duration exceeds the capacity or a "
        "conflicting / second different signature is present; any other exception type is a violation; bar.copy() has equal "
        "signature, key and content and shares no message object. Non-trivial: duration != capacity or a signature event "
        "present. Distinct by case digest.")
RULE = RULE + " Rounds e-f: zero-length grace notes, a read of the absolute view / duration before copy, arbitrary ill-formed relative lists ('any sequence')."
RULE = RULE + " Round h: an INTERNAL end marker added through add_absolute_message after the relative view was read."
RULE = RULE + " Round i: stray time attributes on hand-written relative note messages."
RULE = RULE + " Round j: settings reloaded at run time with another ppqn."
RULE = RULE + " Round k: conflicting then matching signature on one tick."
ASSUMPTIONS = ["a duplicate identical signature may be accepted or rejected (normalise may merge it)"]
TIERS = {"quick": dict(shards=8, examples=1200), "thorough": dict(fuzz_runs=20000, fuzz_shards=4, shards=16, examples=15000)}


@st.composite
def _case(draw):
    den = draw(st.sampled_from([1, 2, 4, 8, 16, 32, 4, 8, 64, 128, 3, 6, 12, 24, 48, 96]))
    # numerators for which the capacity 96*num/den is a whole number of ticks (the bar can last "exactly" that long)
    num = draw(st.integers(1, 16).map(lambda n: n * (den // math.gcd(96, den))))
    cap = 96 * num // den
    mode = draw(st.sampled_from(["shorter", "equal", "plus1", "longer", "confusion", "free"]))
    if mode == "shorter":
        target = draw(st.integers(0, max(0, cap - 1)))
    elif mode == "equal":
        target = cap
    elif mode == "plus1":
        target = cap + 1
    elif mode == "longer":
        target = cap + draw(st.integers(2, 3 * cap + 10))
    elif mode == "confusion":
        target = draw(st.integers(cap + 1, 24 * cap))
    else:
        target = draw(st.integers(0, 2 * cap + 5))
    target = min(target, 3000)
    notes = draw(gens.wellformed_notes(channels=(0, 1), pitches=(60, 61, 62), max_notes=5,
                                       max_len=max(1, min(target, 60)), max_gap=max(1, min(target, 40)), start_max=min(target, 30)))
    notes = [n for n in notes if n[3] <= target]
    sigs = draw(st.sampled_from(["none", "none", "match", "match-mid", "conflict", "conflict-mid", "two-different",
                                 "match+conflict", "duplicate", "conflict-then-match-same-tick"]))
    other = draw(st.one_of(st.tuples(st.integers(1, 16), st.sampled_from([2, 4, 8, 16])), st.just((2 * num, 2 * den)),
                           st.just((num, 2 * den))).filter(lambda v: v != (num, den)))
    mid = draw(st.integers(0, max(0, target)))
    mid2 = draw(st.integers(0, max(0, target)).filter(lambda t: t != mid)) if target > 0 else None
    meta = []
    if sigs == "match":
        meta = [["ts", 0, num, den]]
    elif sigs == "match-mid":
        meta = [["ts", mid, num, den]]
    elif sigs == "conflict":
        meta = [["ts", 0, other[0], other[1]]]
    elif sigs == "conflict-mid":
        meta = [["ts", mid, other[0], other[1]]]
    elif sigs == "two-different" and mid2 is not None:
        third = draw(st.tuples(st.integers(1, 16), st.sampled_from([2, 4, 8])).filter(lambda v: v != other))
        meta = [["ts", mid, other[0], other[1]], ["ts", mid2, third[0], third[1]]]
    elif sigs == "match+conflict" and mid2 is not None:
        meta = [["ts", mid, num, den], ["ts", mid2, other[0], other[1]]]
    elif sigs == "conflict-then-match-same-tick":
        meta = [["ts", mid, other[0], other[1]], ["ts", mid, num, den]]
    elif sigs == "duplicate" and mid2 is not None:
        meta = [["ts", mid, num, den], ["ts", mid2, num, den]]
    if draw(st.booleans()):
        meta.append(["ks", draw(st.integers(0, max(0, target))), draw(st.sampled_from(gens.KEYS))])
    spec = {"notes": notes, "meta": meta}
    spec.update(draw(gens.route()))
    spec["pad"] = target if draw(st.integers(0, 4)) > 0 else None
    case = {"seq": spec, "num": num, "den": den, "key": draw(st.one_of(st.none(), st.sampled_from(gens.KEYS)))}
    # what happens between construction and copy: nothing, or a read of the bar's absolute view / duration
    case["consult"] = draw(st.sampled_from([None, None, "abs", "duration"]))
    if draw(st.integers(0, 9)) == 0:
        case["reload_ppqn"] = draw(st.sampled_from([48, 96, 12]))
    if draw(st.integers(0, 5)) == 0:
        # the way detokenise marks the end of a sequence: an INTERNAL marker added through add_absolute_message (here after the
        # relative view was read once), at a tick around the capacity
        case["end_marker"] = draw(st.one_of(st.integers(0, 2 * cap + 5), st.sampled_from([cap, cap + 1, 3 * cap])))
    if draw(st.integers(0, 6)) == 0:
        # "any sequence": an arbitrary, possibly ill-formed relative message list (unclosed, re-struck, orphaned notes; the first
        # message may be an unclosed note-on), durations around the capacity
        m = st.one_of(st.tuples(st.just("w"), st.one_of(st.integers(1, 12), st.integers(1, max(1, cap)))),
                      st.tuples(st.just("on"), st.integers(0, 1), st.sampled_from([60, 61]), st.integers(1, 127)),
                      st.tuples(st.just("off"), st.integers(0, 1), st.sampled_from([60, 61])),
                      st.tuples(st.just("on"), st.integers(0, 1), st.sampled_from([60, 61]), st.integers(1, 127)))
        case["raw"] = [list(x) for x in draw(st.lists(m, min_size=1, max_size=10))]
        if draw(st.booleans()):
            case["raw"].insert(0, ["on", 0, 62, 80])        # never closed, in front of everything
        case["stray_time"] = draw(st.booleans())
        return case
    if draw(st.integers(0, 5)) == 0:
        # grace notes: a note-on directly followed by its note-off (zero length) in a hand-written relative message list;
        # pitches outside the pool of the ordinary notes. Only event-level comparisons apply to such input.
        spec["route"], spec["post"] = "rel", None
        spec.pop("split_waits", None)
        case["grace"] = draw(st.lists(st.tuples(st.integers(0, 30), st.sampled_from([0, 1]), st.sampled_from([70, 71]),
                                                st.integers(1, 127)).map(list), min_size=1, max_size=2))
    return case


def strategy(params, shard, nshards):
    return _case()


def check(case):
    """(wrapper) in a tenth of the cases a settings file with another resolution is loaded at run time before the bar is built, the
    way an application re-reads its configuration; the default file is loaded again afterwards in any case"""
    if not case.get("reload_ppqn"):
        return _check(case)
    import json
    import tempfile
    from pathlib import Path
    import scoda.settings.settings as settings
    from pbt.sut import REPO
    root = os.path.dirname(os.path.dirname(os.path.dirname(os.path.abspath(__file__))))
    cfg = json.load(open(os.path.join(REPO, "scoda", "config", "default_settings.json")))
    cfg["general_settings"]["ppqn"] = case["reload_ppqn"]
    os.makedirs(os.path.join(root, ".cache"), exist_ok=True)
    fd, path = tempfile.mkstemp(suffix=".json", dir=os.path.join(root, ".cache"))
    with os.fdopen(fd, "w") as f:
        json.dump(cfg, f)
    try:
        settings.load_from_file(Path(path))
        out = _check(case)
        out.label("settings-reloaded-at-run-time")
        return out
    finally:
        settings.load_from_file()
        os.unlink(path)


def _check(case):
    out = Outcome()
    num, den = case["num"], case["den"]
    cap = 96 * num // den
    if case.get("raw"):
        out.label("ill-formed-input")
        try:
            msgs = []
            for k, m in enumerate(case["raw"]):
                # (every third hand-written note message still carries a meaningless `time`, as a copy taken from an absolute
                # view would; in the relative view only WAIT messages have a duration)
                stray = {"time": 7 + k} if case.get("stray_time") and k % 3 == 0 else {}
                if m[0] == "w":
                    msgs.append(Message(message_type=MT.WAIT, time=m[1]))
                elif m[0] == "on":
                    msgs.append(Message(message_type=MT.NOTE_ON, channel=m[1], note=m[2], velocity=m[3], **stray))
                else:
                    msgs.append(Message(message_type=MT.NOTE_OFF, channel=m[1], note=m[2], **stray))
            seq = Sequence(relative_sequence=RelativeSequence(msgs))
            ev0, d0 = O.seq_events(seq)
        except Exception as e:
            out.inconclusive = f"input-construction-raised:{type(e).__name__}"
            return out
    elif case.get("grace"):
        out.label("grace-notes")
        try:
            msgs = build.to_relative(build.abs_messages(case["seq"]))
            for k, ch, p, v in case["grace"]:
                at = k % (len(msgs) + 1)
                msgs[at:at] = [Message(message_type=MT.NOTE_ON, channel=ch, note=p, velocity=v),
                               Message(message_type=MT.NOTE_OFF, channel=ch, note=p)]
            seq = Sequence(relative_sequence=RelativeSequence(msgs))
            if case["seq"].get("pad") is not None:
                seq.pad(case["seq"]["pad"])
            ev0, d0 = O.seq_events(seq)
        except Exception as e:
            out.inconclusive = f"input-construction-raised:{type(e).__name__}"
            return out
    else:
        built = build_input(out, case["seq"])
        if built is None:
            return out
        seq, ev0, d0, notes0 = built
    if case.get("end_marker") is not None and not case.get("raw") and not case.get("grace"):
        out.label("end-marker-added")
        try:
            seq.is_empty()
            _ = seq.rel
            seq.add_absolute_message(Message(message_type=MT.INTERNAL, time=case["end_marker"]))
            d0 = max(d0, case["end_marker"])
        except Exception as e:
            out.inconclusive = f"end-marker-raised:{type(e).__name__}"
            return out
    ts0 = [(e[5], e[6]) for e in ev0 if e[1] == O.TS]
    conflicting = any(v != (num, den) for v in ts0)
    must_reject = d0 > cap or conflicting
    out.nontrivial = d0 != cap or bool(ts0)
    out.label("longer" if d0 > cap else "equal" if d0 == cap else "shorter",
              "conflicting-signature" if conflicting else ("matching-signature" if ts0 else "no-signature"))
    key = Key(case["key"]) if case["key"] else None
    try:
        bar = Bar(seq, num, den, key)
    except BarException:
        # (the statement allows a bar error for any input; that valid bars are accepted is exercised by C09/C01/C03)
        out.label("rejected" if must_reject or len(ts0) > 1 else "rejected-although-valid")
        return out
    except Exception as e:
        out.fail("wrong-exception-type", f"{type(e).__name__}: {e} (duration {d0}, capacity {cap}, signatures {ts0})")
        return out
    out.label("accepted")
    if must_reject:
        why = "over-long" if d0 > cap else "conflicting-signature"
        out.fail(f"invalid-bar-accepted:{why}", f"duration {d0} capacity {cap} signatures {ts0} accepted as {num}/{den} bar")
        return out
    try:
        rep = build.replica(bar.sequence)
        rel = rep.rel
        ev_r, d_r = O.rel_events(rel)
        ev_a, d_a = O.abs_events(rep.abs)
    except O.Malformed as e:
        out.fail("malformed-output", str(e))
        return out
    except Exception as e:
        out.fail("bar-unreadable", f"{type(e).__name__}: {e}")
        return out
    if d_r != cap or d_a != cap:
        out.fail("bar-duration", f"{num}/{den} bar lasts {d_r} (rel) / {d_a} (abs), capacity {cap}, input lasted {d0}")
    ts1 = [e for e in ev_r if e[1] == O.TS]
    first = rel._messages[0] if rel._messages else None
    if len(ts1) != 1 or (ts1[0][5], ts1[0][6]) != (num, den) or ts1[0][0] != 0 or first is None or O._kind(first) != O.TS:
        out.fail("bar-signature-events", f"{num}/{den} bar has signature events {ts1}, first message {first!r}")
    if (bar.time_signature_numerator, bar.time_signature_denominator) != (num, den):
        out.fail("bar-signature-attributes", f"{bar.time_signature_numerator}/{bar.time_signature_denominator}")
    if O.canon((ev_r, d_r)) != O.canon((ev_a, d_a)):
        out.fail("views-disagree", f"rel {O.canon((ev_r, d_r))} abs {O.canon((ev_a, d_a))}")
    # copy
    try:
        if case.get("consult") == "abs":
            _ = bar.sequence.abs
        elif case.get("consult") == "duration":
            bar.sequence.get_sequence_duration()
        cpy = bar.copy()
        c_ev = O.canon(O.seq_events(cpy.sequence))
    except Exception as e:
        out.fail("copy-raises", f"{type(e).__name__}: {e}")
        return out
    if (cpy.time_signature_numerator, cpy.time_signature_denominator, cpy.key_signature) != (num, den, key):
        out.fail("copy-attributes", f"{cpy.time_signature_numerator}/{cpy.time_signature_denominator} {cpy.key_signature}")
    if c_ev != O.canon((ev_r, d_r)):
        out.fail("copy-content", f"{O.canon((ev_r, d_r))} vs {c_ev}")
    def _ids(s):
        return {id(m) for v in (getattr(s, "_abs", None), getattr(s, "_rel", None)) if v is not None for m in v._messages}

    ids, cids = _ids(bar.sequence), _ids(cpy.sequence)
    if cpy.sequence is bar.sequence or ids & cids:
        out.fail("copy-shares-objects", "bar.copy() shares the sequence or message objects with the original")
    return out
