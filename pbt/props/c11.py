"""C11 — tick values stay integers through every operation."""
import numbers
import re

from hypothesis import strategies as st

from pbt import build, gens
from pbt.common import build_input
from pbt.runner import Outcome
from pbt.sut import Bar, Composition, Sequence, Tokeniser
import scoda.misc.util as util

ID = "C11"
MIN_NONTRIVIAL = 0.3
RULE = ("Hypothesis: 1-3 integer-tick well-formed sequences of unequal length pushed through pipelines of <= 6 stages drawn from "
        "quantise, quantise_note_lengths (grids given explicitly or built by the library's duration helpers from integer arguments), quantise_and_normalise, normalise, pad, cutoff, transpose, scale(k), set_channel, "
        "split, merge, concatenate, Bar(...) (sequences shorter than the capacity => padding), sequences_split_bars (either "
        "re-quantisation setting), Composition.from_sequences -> to_sequences, tokenise (whole and bar-wise with a threaded "
        "state) -> detokenise, all with integer arguments. Oracle after every stage: for every Sequence reachable from the "
        "result, in the raw fresh view(s) and in both views read on a replica, every message time is of integer type (not "
        "bool, not float); every emitted token matches an integer-only token grammar. Non-trivial: the pipeline built a Bar "
        "from a sequence shorter than its capacity or split tracks of unequal length into bars. Distinct by case digest.")
RULE = RULE + " Round f: tokeniser ppqn in {None, 24, 48, 96, 120}; token grammar checked before detokenise."
RULE = RULE + " Round h: tuplet ratios 5:4, 6:4, 7:4, 10:8, 9:8 and up to three dots."
RULE = RULE + " Round j: detokenise of pseudo-random vocabulary streams as a pipeline stage."
ASSUMPTIONS = ["an exception raised by a stage (BarException, TokenisationException, IndexError on empty content, ...) means the "
               "pipeline produced content that stage does not accept: the pipeline ends as inconclusive"]
TIERS = {"quick": dict(shards=8, examples=500), "thorough": dict(shards=16, examples=6000)}

TOKEN_RE = re.compile(r"^(pad|sta|sto|bar|rst_\d+|trk_\d+|val_\d+|vel_\d+|tsg_\d+_\d+|((trk_\d+-)?pit_\d+(-val_\d+)?(-vel_\d+)?))$")
OPS = ["quantise", "qnl", "qan", "normalise", "pad", "cutoff", "transpose", "scale", "set_channel", "split", "merge",
       "concatenate", "bar", "split_bars", "composition", "tokenise", "tokenise_bars", "detokenise_stream"]
SIGS = [(4, 4), (3, 4), (6, 8), (2, 4), (5, 8), (3, 8), (12, 8), (2, 2), (1, 4), (7, 16), (3, 16), (6, 64), (10, 64), (7, 32)]


@st.composite
def _case(draw):
    k = draw(st.integers(1, 3))
    seqs = []
    for i in range(k):
        ts = []
        if i == 0 and draw(st.booleans()):
            sig = draw(st.sampled_from(SIGS))
            if draw(st.integers(0, 2)) == 0:
                # no signature at tick 0: the first one arrives after one or two implicit 4/4 bars
                ts = [["ts", 96 * draw(st.integers(1, 2)), sig[0], sig[1]]]
            else:
                ts = [["ts", 0, sig[0], sig[1]]]
                if draw(st.booleans()):
                    sig2 = draw(st.sampled_from(SIGS))
                    ts.append(["ts", 96 * sig[0] // sig[1] * draw(st.integers(1, 2)), sig2[0], sig2[1]])
        notes = draw(gens.wellformed_notes(channels=(i,), pitches=(60, 62, 64, 65), max_notes=7, max_len=60, max_gap=40))
        spec = {"notes": notes, "meta": ts}
        spec.update(draw(gens.route()))
        end = max([n[3] for n in notes] + [m[1] for m in ts] + [0])
        spec["pad"] = draw(st.one_of(st.none(), st.just(end + draw(st.integers(0, 120)))))
        seqs.append(spec)
    n_ops = draw(st.integers(1, 6))
    ops = []
    for _ in range(n_ops):
        name = draw(st.sampled_from(OPS + ["bar", "split_bars", "tokenise_bars", "qan"]))
        ops.append([name, draw(st.integers(0, 10 ** 6)), draw(st.integers(1, 8)), draw(st.integers(1, 200)), draw(st.booleans())])
    return {"seqs": seqs, "ops": ops}


def strategy(params, shard, nshards):
    return _case()


def _int_ok(x):
    return x is None or (isinstance(x, numbers.Integral) and not isinstance(x, bool))


def _scan(out, seq, where):
    """all times of a Sequence: raw fresh slots, then both views on a replica"""
    views = []
    if not seq._abs_stale:
        views.append(("abs(raw)", seq._abs._messages))
    if not seq._rel_stale:
        views.append(("rel(raw)", seq._rel._messages))
    try:
        rep = build.replica(seq)
        views.append(("abs", rep.abs._messages))
        views.append(("rel", rep.rel._messages))
    except Exception as e:
        out.inconclusive = f"unreadable-after:{where}:{type(e).__name__}"
        return False
    for vname, msgs in views:
        for m in msgs:
            if not _int_ok(m.time):
                out.fail(f"non-integer-time:{where.split('#')[0]}", f"{where}: {vname} view holds time {m.time!r} ({type(m.time).__name__}) in {m!r}")
                return False
    return True


def _grid_ok(out, values, where):
    for v in values:
        if not _int_ok(v) or v is None:
            out.fail(f"non-integer-grid-value:{where.split('#')[0]}", f"{where}: a duration helper called with integer arguments returned {values!r}")
            return False
    return True


def _tokens_ok(out, tokens, where):
    for t in tokens:
        if not isinstance(t, str) or not TOKEN_RE.match(t):
            out.fail(f"non-integer-token:{where}", f"token {t!r}")
            return False
    return True


def check(case):
    out = Outcome()
    pool = []
    for spec in case["seqs"]:
        built = build_input(out, spec)
        if built is None:
            return out
        pool.append(built[0])
    for s in pool:
        if not _scan(out, s, "input"):
            out.violations.clear()
            out.inconclusive = "input-not-integer"
            return out
    for idx, (name, r, a, b, flag) in enumerate(case["ops"]):
        where = f"{name}#{idx}"
        out.label(name)
        j = r % len(pool)
        s = pool[j]
        tokens = None
        try:
            if name == "quantise":
                # explicit integer lists, or the grids the library's own helpers build from integer arguments (the way
                # the docstrings of quantise / quantise_note_lengths tell the user to obtain them)
                steps = [[24, 12], [4], [6, 4], [a], [16, 8, 6], util.get_default_step_sizes(a % 3, b % 3),
                         util.get_note_durations(2 ** (a % 3), 2 ** (b % 4))][r % 7]
                if not _grid_ok(out, steps, where):
                    return out
                s.quantise(list(steps))
            elif name == "qnl":
                base = util.get_note_durations(2 ** (a % 3), 2 ** (b % 3))
                # tuplet ratios as musicians write them: triplets 3:2, quintuplets 5:4, sextuplets 6:4, septuplets 7:4, 10:8, 9:8
                ratio = [(3, 2), (5, 4), (6, 4), (7, 4), (10, 8), (9, 8), (3, 2)][(a + b) % 7]
                vals = [[24, 12, 6], [a], [4, 8, 36], base, base + util.get_tuplet_durations(base, *ratio),
                        base + util.get_dotted_note_durations(base, 1 + a % 3)][r % 6]
                if not _grid_ok(out, vals, where):
                    return out
                s.quantise_note_lengths(list(vals), do_not_extend=flag)
            elif name == "qan":
                for x in pool:
                    x.quantise_and_normalise()
            elif name == "normalise":
                s.normalise()
            elif name == "pad":
                s.pad(b)
            elif name == "cutoff":
                s.cutoff(a + 2, a)
            elif name == "transpose":
                s.transpose(b - 100)
            elif name == "scale":
                s.scale(a, quantise_afterwards=flag)
            elif name == "set_channel":
                s.set_channel(a % 4)
            elif name == "split":
                pieces = s.split([a * 7, b])
                pool[j:j + 1] = pieces if pieces else [Sequence()]
            elif name == "merge":
                s.merge([x.copy() for k, x in enumerate(pool) if k != j])
            elif name == "concatenate":
                s.concatenate([x.copy() for k, x in enumerate(pool) if k != j])
            elif name == "bar":
                sig = SIGS[r % len(SIGS)]
                dur = sum(m.time for m in s.rel._messages if m.time is not None)
                src = s.copy()
                if flag and dur > 96 * sig[0] // sig[1]:
                    src = src.split([96 * sig[0] // sig[1]])[0]
                    dur = sum(m.time for m in src.rel._messages if m.time is not None)
                bar = Bar(src, sig[0], sig[1])
                if dur < 96 * sig[0] // sig[1]:
                    out.nontrivial = True
                    out.label("short-bar")
                pool[j] = bar.sequence
            elif name in ("split_bars", "composition", "tokenise_bars"):
                durs = {sum(m.time for m in x.rel._messages if m.time is not None) for x in pool}
                if name == "composition":
                    comp = Composition.from_sequences([x.copy() for x in pool], 0)
                    tracks_bars = [t.bars for t in comp.tracks]
                    new_pool = comp.to_sequences()
                else:
                    srcs = [x.copy() for x in pool]
                    if name == "tokenise_bars":
                        for x in srcs:
                            x.quantise_and_normalise()
                    tracks_bars = Sequence.sequences_split_bars(srcs, 0, quantise_note_lengths=flag or name == "tokenise_bars")
                    new_pool = [Bar.to_sequence([bb.copy() for bb in bars]) for bars in tracks_bars]
                if len(durs) > 1:
                    out.nontrivial = True
                    out.label("unequal-tracks")
                for bars in tracks_bars:
                    for bb in bars:
                        if not _scan(out, bb.sequence, where + ":bar"):
                            return out
                if name == "tokenise_bars":
                    tok = Tokeniser(num_tracks=len(pool), velocity_bins=[1, 2, 8, 15][a % 4], flag_fuse_value=flag,
                                    flag_fuse_velocity=bool(a % 2), pitch_range=(21, 108))
                    state, tokens = {}, []
                    for kbar in range(len(tracks_bars[0])):
                        tokens.extend(tok.tokenise([tracks_bars[i][kbar].copy().sequence for i in range(len(pool))], state_dict=state))
                    if not _tokens_ok(out, tokens, name):
                        return out
                    new_pool = tok.detokenise(tokens)
                pool = new_pool
            elif name == "detokenise_stream":
                # a hand-written / model-generated stream of vocabulary tokens (signature tokens, bar tokens in bars that still
                # have room, rests, notes) is detokenised; the resulting sequences continue through the pipeline
                tok = Tokeniser(num_tracks=1 + a % 2, velocity_bins=[1, 2, 8][a % 3], flag_fuse_value=flag, pitch_range=(60, 61),
                                ppqn=[None, None, 48, 24][b % 4])
                vocab = list(tok.dictionary)
                groups = [[t for t in vocab if t.startswith(pre) or ("-" + pre) in t] for pre in ("tsg_", "bar", "rst_", "pit_", "val_", "trk_")]
                groups = [g for g in groups if g]
                x = (a * 7919 + b * 104729 + r * 31 + idx) % 2 ** 31
                stream = []
                for _ in range(4 + (a + b) % 14):
                    x = (1103515245 * x + 12345) % 2 ** 31
                    g = groups[(x >> 8) % len(groups)]
                    stream.append(g[(x >> 16) % len(g)])
                pool = tok.detokenise(stream)
            elif name == "tokenise":
                tok = Tokeniser(num_tracks=len(pool), velocity_bins=[1, 2, 8, 15][a % 4], flag_fuse_value=flag,
                                flag_fuse_velocity=bool(a % 2), flag_fuse_track=bool(b % 2), pitch_range=(21, 108),
                                # the tokeniser's own resolution: default, or explicit (also with default step sizes / note values)
                                ppqn=[None, None, 48, 24, 96, 120][(a + 2 * b) % 6],
                                step_sizes=None if r % 3 else util.get_default_step_sizes(a % 2, 1 + b % 2))
                srcs = [x.copy() for x in pool]
                for x in srcs:
                    x.quantise_and_normalise()
                tokens = tok.tokenise(srcs)
                if not _tokens_ok(out, tokens, name):       # (before detokenise: a float spelling makes detokenise itself raise)
                    return out
                pool = tok.detokenise(tokens)
        except Exception as e:
            out.inconclusive = f"stage-raised:{name}:{type(e).__name__}"
            return out
        if tokens is not None and not _tokens_ok(out, tokens, name):
            return out
        if tokens:
            # a window of the stream (as when a later bar is detokenised on its own): the detokeniser then starts from
            # its built-in running values instead of explicit trk/val/vel tokens
            try:
                window = tok.detokenise(tokens[r % len(tokens):])
            except Exception as e:
                out.inconclusive = f"stage-raised:{name}-window:{type(e).__name__}"
                return out
            for x in window:
                if not _scan(out, x, where + ":window"):
                    return out
        for x in pool:
            if not _scan(out, x, where):
                return out
    return out
