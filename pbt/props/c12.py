"""C12 — saving to MIDI and loading back returns the same music."""
import os
import tempfile

from hypothesis import strategies as st

from pbt import gens, oracles as O
from pbt.common import build_input
from pbt.runner import Outcome, ROOT
from pbt.sut import Sequence

ID = "C12"
MIN_NONTRIVIAL = 0.3
RULE = ("Hypothesis: 1-4 integer-tick well-formed single-channel sequences (arbitrary channel number each), velocities 1..127, "
        "leading rests, simultaneous and abutting events, ticks <= 2000; time and key signatures (all 15 keys, denominators "
        "2/4/8/16) spread over several sequences at ticks distinct per kind; control/program changes as noise; "
        "target_meta_track_index drawn; written through Sequence.sequences_save to a real file in a private temp directory "
        "and read back with Sequence.sequences_load. Oracle: as many sequences as saved, in order; per index the note list "
        "(pitch, on, off, velocity) from the harness automaton is identical and anomaly-free; on the meta sequence the "
        "in-force function of time signatures equals that of the saved union with 4/4 at tick 0 when nothing was saved "
        "there, the in-force function of keys equals the saved one; other sequences carry no signatures. Non-trivial: >= 2 "
        "sequences, a signature on a sequence other than the meta target, and a simultaneous event pair. Distinct by digest.")
RULE = RULE + " Round e: signature values from a two-value pool per case (A, B, A across sequences)."
RULE = RULE + " Round h: Sequence.save, objects saved before, objects saved / edited in place / saved again."
RULE = RULE + " Round i: the file parsed once and loaded twice from the parsed object."
RULE = RULE + " Round j: integral ticks stored as floats (after scale(2), scale(0.5))."
RULE = RULE + " Round k: enharmonic key pairs in the pools."
ASSUMPTIONS = ["mido's MIDI file writer/reader is trusted", "trailing rests are not stored by the writer and not part of the statement"]
TIERS = {"quick": dict(shards=8, examples=400, alt_ppqn=[480], alt_shards=2),
         "thorough": dict(shards=16, examples=5000, alt_ppqn=[480, 7, 1000], alt_shards=2)}


@st.composite
def _case(draw):
    k = draw(st.integers(1, 4))
    ts_ticks = draw(st.lists(st.one_of(st.just(0), st.integers(0, 600)), max_size=5, unique=True))
    ks_ticks = draw(st.lists(st.one_of(st.just(0), st.integers(0, 600)), max_size=5, unique=True))
    metas = [[] for _ in range(k)]
    # values come from a small per-case pool in half of the cases, so that A, B, A patterns (a value that returns after a change,
    # possibly on another sequence) are common
    sig_s = st.one_of(st.tuples(st.integers(1, 16), st.sampled_from(gens.DENOMS)), st.sampled_from([(8, 8), (4, 4), (2, 2)]))
    key_s = st.sampled_from(gens.KEYS)
    if draw(st.booleans()):
        sig_s = st.sampled_from(draw(st.lists(sig_s, min_size=2, max_size=2)))
        key_s = st.sampled_from(draw(st.one_of(st.lists(key_s, min_size=2, max_size=2),
                                               st.sampled_from([["Db", "C#"], ["Gb", "F#"], ["Cb", "B"]]))))
    for t in ts_ticks:
        sig = draw(sig_s)
        metas[draw(st.integers(0, k - 1))].append(["ts", t, sig[0], sig[1]])
    for t in ks_ticks:
        metas[draw(st.integers(0, k - 1))].append(["ks", t, draw(key_s)])
    seqs = []
    for i in range(k):
        ch = draw(st.integers(0, 15))
        big = draw(st.integers(0, 4)) == 0
        notes = draw(gens.wellformed_notes(channels=(ch,), pitches=draw(st.sampled_from([(60, 62, 64), (21, 60, 108), (0, 64, 127)])),
                                           max_notes=8, max_len=700 if big else 60, max_gap=600 if big else 40,
                                           start_max=300 if big else 40))
        meta = [list(m) + [ch] for m in metas[i]]
        if draw(st.integers(0, 2)) == 0:
            meta.append(["cc", draw(st.integers(0, 300)), draw(st.integers(0, 127)), draw(st.integers(0, 127)), ch])
        if draw(st.integers(0, 3)) == 0:
            meta.append(["pc", draw(st.integers(0, 300)), draw(st.integers(0, 127)), ch])
        spec = {"notes": notes, "meta": meta}
        spec.update(draw(gens.route()))
        end = max([n[3] for n in notes] + [m[1] for m in meta] + [0])
        spec["pad"] = draw(st.one_of(st.none(), st.just(end + draw(st.integers(0, 30)))))
        seqs.append(spec)
    return {"seqs": seqs, "target": draw(st.integers(0, k - 1)), "load": draw(st.sampled_from(["path", "path", "path", "parsed_twice"])),
            "how": draw(st.sampled_from(["sequences_save", "sequences_save", "saved_before", "single_save", "saved_then_edited", "after_scale_down"]))}


def strategy(params, shard, nshards):
    return _case()


def check(case):
    out = Outcome()
    specs = case["seqs"]
    target = case["target"]
    seqs, contents = [], []
    for s in specs:
        built = build_input(out, s)
        if built is None:
            return out
        seqs.append(built[0])
        contents.append(built[1:])
    if case.get("how") == "saved_then_edited":
        # the objects were written once, then changed in place (every tick doubled), and are written again: the second file must
        # hold the edited music
        out.label("save:saved_then_edited")
        try:
            os.makedirs(os.path.join(ROOT, ".cache"), exist_ok=True)
            with tempfile.TemporaryDirectory(dir=os.path.join(ROOT, ".cache")) as d0:
                Sequence.sequences_save(seqs, os.path.join(d0, "first.mid"))
            contents = []
            for s in seqs:
                s.scale(2, quantise_afterwards=False)
                ev, dur = O.seq_events(s)
                ns, an = O.notes(ev)
                if an:
                    raise ValueError("edited content ill-formed")
                contents.append((ev, dur, ns))
        except Exception as e:
            out.inconclusive = f"first-save-or-edit-raised:{type(e).__name__}"
            return out
    if case.get("how") == "after_scale_down":
        # the library itself leaves integral tick values stored as floats (12.0) after scale(2) + scale(0.5); such a sequence is
        # still integer-tick music and must be written like any other
        out.label("save:after_scale_down")
        try:
            contents = []
            for s in seqs:
                s.scale(2, quantise_afterwards=False)
                s.scale(0.5, quantise_afterwards=False)
                ev, dur = O.seq_events(s)
                ns, an = O.notes(ev)
                if an:
                    raise ValueError("scaled content ill-formed")
                contents.append((ev, dur, ns))
        except Exception as e:
            out.inconclusive = f"scale-down-raised:{type(e).__name__}"
            return out
    union = [e for c in contents for e in c[0]]
    ticks_all = [e[0] for e in union if e[1] in (O.NOTE_ON, O.NOTE_OFF, O.TS, O.KS)]
    simultaneous = len(ticks_all) != len(set(ticks_all))
    sig_elsewhere = any(e[1] in (O.TS, O.KS) for i, c in enumerate(contents) if i != target for e in c[0])
    out.nontrivial = len(specs) >= 2 and sig_elsewhere and simultaneous
    out.label(f"sequences={len(specs)}", *[l for l, c in (("signature-not-on-target", sig_elsewhere), ("simultaneous", simultaneous)) if c])
    os.makedirs(os.path.join(ROOT, ".cache"), exist_ok=True)
    with tempfile.TemporaryDirectory(dir=os.path.join(ROOT, ".cache")) as d:
        path = os.path.join(d, "case.mid")
        try:
            how = case.get("how", "sequences_save")
            if how == "saved_before":
                # the same objects were written once before (saving must not have changed them)
                Sequence.sequences_save(seqs, os.path.join(d, "first.mid"))
            if how == "single_save" and len(seqs) == 1:
                seqs[0].save(path)
            else:
                Sequence.sequences_save(seqs, path)
            out.label("save:" + how)
        except Exception as e:
            out.fail(f"save-raises:{type(e).__name__}", f"{e}")
            return out
        try:
            if case.get("load") == "parsed_twice":
                from pbt.sut import MidiFile
                out.label("load:parsed-object-second-time")
                mf = MidiFile.open(path)
                Sequence.sequences_load(midi_file=mf, target_meta_track_index=target)
                loaded = Sequence.sequences_load(midi_file=mf, target_meta_track_index=target)
            else:
                loaded = Sequence.sequences_load(file_path=path, target_meta_track_index=target)
        except Exception as e:
            out.fail(f"load-raises:{type(e).__name__}", f"{e}")
            return out
    if len(loaded) != len(specs):
        out.fail("sequence-count", f"saved {len(specs)}, loaded {len(loaded)}")
        return out
    for i, s in enumerate(loaded):
        try:
            ev, _ = O.abs_events(s.abs)
        except O.Malformed as e:
            out.fail("malformed-output", f"sequence {i}: {e}")
            return out
        got, an = O.notes(ev)
        want = sorted((n[1], n[2], n[3], n[4]) for n in contents[i][2])
        got_n = sorted((n[1], n[2], n[3], n[4]) for n in got)
        if an or got_n != want:
            out.fail("notes-differ", f"sequence {i}: saved {want} loaded {got_n} anomalies {an}")
            return out
        if i != target:
            if any(e[1] in (O.TS, O.KS) for e in ev):
                out.fail("signature-on-non-meta-sequence", f"sequence {i}: {[e for e in ev if e[1] in (O.TS, O.KS)]}")
        else:
            saved_ts = [e for e in union if e[1] == O.TS]
            if not any(e[0] == 0 for e in saved_ts):
                saved_ts = [(0, O.TS, 0, None, None, 4, 4, None, None, None)] + saved_ts
            if O.in_force(ev, O.TS) != O.in_force(saved_ts, O.TS):
                out.fail("time-signature-in-force", f"saved {O.in_force(saved_ts, O.TS)} loaded {O.in_force(ev, O.TS)}")
            if O.in_force(ev, O.KS) != O.in_force(union, O.KS):
                out.fail("key-in-force", f"saved {O.in_force(union, O.KS)} loaded {O.in_force(ev, O.KS)}")
    return out
