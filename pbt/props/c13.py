"""C13 — loading rescales file ticks exactly and routes every event to the right sequence."""
import math
import os
import tempfile
from fractions import Fraction

import mido
from hypothesis import strategies as st

from pbt import oracles as O
from pbt.runner import Outcome, ROOT
from pbt.sut import Sequence, MidiFile

ID = "C13"
MIN_NONTRIVIAL = 0.3
RULE = ("Hypothesis: mido files with ticks_per_beat from {24,48,96,120,192,240,384,480,960,1000,25,7} or random 1..2000, 1-5 tracks "
        "built as delta-time event walks (so any delta pattern occurs, incl. a 'drift' class of 100-300 sub-tick deltas and a 'far' class with events up to 400 beats apart, i.e. 10^5..10^6 file ticks into the track): notes on "
        "channels 0-2 x 3 pitches, well-formed per track (a fraction of the tracks additionally carries note-offs that close nothing and notes that are never closed; neither may contribute or remove sound), each at least 1.5 library ticks long, note-off encoded as note_off or "
        "note_on velocity 0; time/key signatures (only key names KeyKeyMapping lists) at least 2 library ticks apart per kind "
        "over the whole file; tempo/text meta messages and control/program changes carrying delta time. Groupings: disjoint "
        "non-empty groups over a subset of the tracks, any subset as meta indices, any valid target index; a quarter of the "
        "cases go through a real file; a quarter of the in-memory cases load the same parsed MidiFile object once before (default grouping). Oracle: exact positions are Fractions file_tick*24/tpb; per group the output sounding set "
        "G satisfies must <= G <= may, where must/may take for every note end the latest/earliest tick within 1/2 of its exact "
        "position (they differ only at exact .5 ties) over the union of the group's tracks; no pairing anomaly; tracks outside "
        "every group contribute no notes; every signature of a considered track that does not repeat the one in force is on "
        "the target sequence within 1/2 tick with its value, every signature on the target is one of the file's (an extra 4/4 "
        "at tick 0 is tolerated when none lands there), none elsewhere. Non-trivial: real rounding (tpb does not divide "
        "24*tick for some event), >= 2 tracks, and a group of >= 2 tracks or a track outside all groups. Distinct by digest.")
RULE = RULE + " Rounds e-g: a second load of the same parsed MidiFile, pitch-wheel / aftertouch / poly-pressure / sysex runs carrying delta time, explicit groups with the default meta selection."
RULE = RULE + " Round h: velocities from a two-value pool."
RULE = RULE + " Round k: consecutive signatures of equal quotient."
ASSUMPTIONS = ["mido's message and file model is trusted", "notes shorter than 1.5 library ticks are not generated (rounding may annihilate them)"]
TIERS = {"quick": dict(shards=8, examples=300), "thorough": dict(shards=16, examples=4000)}

KEYNAMES = ["C", "G", "D", "A", "E", "B", "F#", "C#", "F", "Bb", "Eb", "Ab", "Db", "Gb", "Cb", "Am", "Em", "Bm", "F#m", "C#m",
            "G#m", "D#m", "Dm", "Gm", "Cm", "Fm", "Bbm", "Ebm"]
MAJOR_OF = {"Am": "C", "Em": "G", "Bm": "D", "F#m": "A", "C#m": "E", "G#m": "B", "D#m": "F#", "Dm": "F", "Gm": "Bb",
            "Cm": "Eb", "Fm": "Ab", "Bbm": "Db", "Ebm": "Gb"}


@st.composite
def _case(draw):
    tpb = draw(st.one_of(st.sampled_from([24, 48, 96, 120, 192, 240, 384, 480, 960, 1000, 25, 7]), st.integers(1, 2000),
                         st.sampled_from([1024, 2048, 15360, 99, 7, 1000, 3, 17])))
    minlen = -(-3 * tpb // 48)            # ceil(1.5 library ticks) in file ticks
    sigspace = -(-2 * tpb // 24) + 1
    ntracks = draw(st.integers(1, 5))
    sig_at = {"ts": [], "ks": []}
    tracks = []
    for _ in range(ntracks):
        drift = draw(st.integers(0, 5)) == 0
        far = not drift and draw(st.integers(0, 4)) == 0     # few events, hundreds of bars into the track
        n = draw(st.integers(100, 300)) if drift else draw(st.integers(0, 12 if far else 30))
        small = max(1, tpb // 48)
        delta_s = (st.sampled_from([small, small, max(1, tpb // 24), 0, 1, small + 1]) if drift else
                   st.one_of(st.integers(0, 2 * tpb), st.integers(50 * tpb, 400 * tpb), st.integers(0, 400 * tpb)) if far else
                   st.one_of(st.just(0), st.integers(0, 3), st.sampled_from([small, max(1, tpb // 24), tpb // 2, tpb]),
                             st.integers(0, 2 * tpb)))
        t = 0
        sounding = {}
        events = []
        for _ in range(n):
            d = draw(delta_s)
            t += d
            act = draw(st.sampled_from(["on", "on", "off", "off", "off", "ts", "ks", "tempo", "text", "cc", "pc", "bend"]))
            ch, p = draw(st.integers(0, 2)), draw(st.sampled_from([60, 61, 72]))
            if act == "on" and (ch, p) not in sounding:
                sounding[(ch, p)] = t
                # (velocities from a small pool in a third of the draws: notes of one key that are equal in every attribute)
                events.append([d, "on", ch, p, draw(st.one_of(st.integers(1, 127), st.integers(1, 127), st.sampled_from([64, 100])))])
            elif act == "off" and (ch, p) not in sounding and draw(st.integers(0, 4)) == 0:
                # ill-formed track: a note-off for a key that is not sounding in this track (closes nothing)
                events.append([d, "stray_off", ch, p, draw(st.integers(0, 1))])
            elif act == "off" and sounding:
                k = draw(st.sampled_from(sorted(sounding)))
                if t - sounding[k] >= minlen:
                    del sounding[k]
                    events.append([d, "off", k[0], k[1], draw(st.integers(0, 1))])
                else:
                    events.append([d, "text"])
            elif act in ("ts", "ks") and all(abs(t - x) >= sigspace for x in sig_at[act]):
                sig_at[act].append(t)
                if act == "ts":
                    prev_ts = [e for tr_ in tracks + [events] for e in tr_ if e[1] == "ts"]
                    if prev_ts and draw(st.integers(0, 2)) == 0:
                        n0, d0_ = prev_ts[-1][2], prev_ts[-1][3]       # another signature with the same quotient (6/8 -> 3/4 -> 12/16)
                        opts = [(n0 * 2, d0_ * 2)] if d0_ <= 8 and n0 <= 8 else []
                        opts += [(n0 // 2, d0_ // 2)] if n0 % 2 == 0 and d0_ >= 4 else []
                        nv = draw(st.sampled_from(opts)) if opts else (draw(st.integers(1, 16)), draw(st.sampled_from([2, 4, 8, 16])))
                        events.append([d, "ts", nv[0], nv[1]])
                    else:
                        events.append([d, "ts", draw(st.integers(1, 16)), draw(st.sampled_from([2, 4, 8, 16]))])
                else:
                    events.append([d, "ks", draw(st.sampled_from(KEYNAMES))])
            elif act == "cc":
                events.append([d, "cc", ch, draw(st.integers(0, 127)), draw(st.integers(0, 127))])
            elif act == "pc":
                events.append([d, "pc", ch, draw(st.integers(0, 127))])
            elif act == "bend":
                # channel messages the library does not represent (pitch bend, aftertouch, poly pressure, sysex), usually in
                # dense runs; each carries delta time that the following events depend on
                events.append([d, draw(st.sampled_from(["pw", "at", "pt", "sx"])), ch])
                for _ in range(draw(st.integers(0, 4))):
                    d2 = draw(st.one_of(st.integers(1, 5), delta_s))
                    t += d2
                    events.append([d2, draw(st.sampled_from(["pw", "at", "pt", "pw"])), ch])
            else:
                events.append([d, "tempo" if act == "tempo" else "text"])
        leave_open = draw(st.integers(0, 5)) == 0       # ill-formed track: some notes are never closed
        for k in sorted(sounding):
            if leave_open and draw(st.booleans()):
                continue
            d = max(0, minlen - (t - sounding[k])) + draw(st.integers(0, 5))
            t += d
            events.append([d, "off", k[0], k[1], draw(st.integers(0, 1))])
        tracks.append(events)
    idx = list(range(ntracks))
    order = draw(st.permutations(idx))
    used = order[:draw(st.integers(1, ntracks))]
    groups, cur = [], []
    for i in used:
        cur.append(i)
        if draw(st.booleans()):
            groups.append(cur)
            cur = []
    if cur:
        groups.append(cur)
    meta = sorted(draw(st.sets(st.sampled_from(idx))))
    if draw(st.integers(0, 5)) == 0:
        # the loader's defaults: every track its own group, every track considered for signatures
        groups, meta = [[i] for i in idx], list(idx)
        return {"tpb": tpb, "tracks": tracks, "groups": groups, "meta": meta, "target": draw(st.integers(0, ntracks - 1)),
                "via_file": draw(st.integers(0, 3)) == 0, "defaults": True}
    case = {"tpb": tpb, "tracks": tracks, "groups": groups, "meta": meta, "target": draw(st.integers(0, len(groups) - 1)),
            "via_file": draw(st.integers(0, 3)) == 0}
    if draw(st.integers(0, 4)) == 0:
        # explicit groups, meta selection left at its default (= every track of the file is considered for signatures)
        case["meta_default"] = True
        case["meta"] = list(idx)
    if not case["via_file"] and draw(st.integers(0, 3)) == 0:
        # the parsed file object was already loaded once with the default grouping (several groupings of one parsed file)
        case["loaded_before"] = True
    return case


def strategy(params, shard, nshards):
    return _case()


def _mido_file(case):
    mf = mido.MidiFile(ticks_per_beat=case["tpb"])
    for events in case["tracks"]:
        tr = mido.MidiTrack()
        for e in events:
            d, kind = e[0], e[1]
            if kind == "on":
                tr.append(mido.Message("note_on", channel=e[2], note=e[3], velocity=e[4], time=d))
            elif kind in ("off", "stray_off"):
                if e[4]:
                    tr.append(mido.Message("note_on", channel=e[2], note=e[3], velocity=0, time=d))
                else:
                    tr.append(mido.Message("note_off", channel=e[2], note=e[3], velocity=64, time=d))
            elif kind == "ts":
                tr.append(mido.MetaMessage("time_signature", numerator=e[2], denominator=e[3], time=d))
            elif kind == "ks":
                tr.append(mido.MetaMessage("key_signature", key=e[2], time=d))
            elif kind == "cc":
                tr.append(mido.Message("control_change", channel=e[2], control=e[3], value=e[4], time=d))
            elif kind == "pc":
                tr.append(mido.Message("program_change", channel=e[2], program=e[3], time=d))
            elif kind == "pw":
                tr.append(mido.Message("pitchwheel", channel=e[2], pitch=100, time=d))
            elif kind == "at":
                tr.append(mido.Message("aftertouch", channel=e[2], value=50, time=d))
            elif kind == "pt":
                tr.append(mido.Message("polytouch", channel=e[2], note=60, value=50, time=d))
            elif kind == "sx":
                tr.append(mido.Message("sysex", data=[1, 2, 3], time=d))
            elif kind == "tempo":
                tr.append(mido.MetaMessage("set_tempo", tempo=500000, time=d))
            else:
                tr.append(mido.MetaMessage("text", text="x", time=d))
        mf.tracks.append(tr)
    return mf


def _cands(x):
    """ticks within 1/2 of the exact position x (two at an exact .5 tie)"""
    return math.ceil(x - Fraction(1, 2)), math.floor(x + Fraction(1, 2))


def check(case):
    out = Outcome()
    tpb = case["tpb"]
    groups, meta_idx, target = case["groups"], case["meta"], case["target"]
    # exact model
    per_track_notes, per_track_sigs = [], []
    rounding = False
    for events in case["tracks"]:
        t = 0
        open_ = {}
        notes, sigs = [], []
        for e in events:
            t += e[0]
            x = Fraction(t * 24, tpb)
            if x.denominator != 1 and e[1] in ("on", "off", "ts", "ks"):
                rounding = True
            if e[1] == "on":
                open_[(e[2], e[3])] = x
            elif e[1] == "off":
                notes.append((e[2], e[3], open_.pop((e[2], e[3])), x))
            elif e[1] == "stray_off":
                pass        # closes nothing in its own track and must not touch another track's note
            elif e[1] == "ts":
                sigs.append((x, O.TS, (e[2], e[3])))
            elif e[1] == "ks":
                sigs.append((x, O.KS, MAJOR_OF.get(e[2], e[2])))
        per_track_notes.append(notes)
        per_track_sigs.append(sigs)
    grouped = {i for g in groups for i in g}
    out.nontrivial = rounding and len(case["tracks"]) >= 2 and (any(len(g) >= 2 for g in groups) or
                                                                 len(grouped) < len(case["tracks"]))
    out.label(f"tpb={'std' if tpb in (24, 48, 96, 120, 192, 240, 384, 480, 960) else 'odd'}",
              "via-file" if case["via_file"] else "in-memory", *(["rounding"] if rounding else []),
              *(["multi-track-group"] if any(len(g) >= 2 for g in groups) else []),
              *(["ungrouped-track"] if len(grouped) < len(case["tracks"]) else []))
    try:
        mido_file = _mido_file(case)
        if case["via_file"]:
            os.makedirs(os.path.join(ROOT, ".cache"), exist_ok=True)
            with tempfile.TemporaryDirectory(dir=os.path.join(ROOT, ".cache")) as d:
                path = os.path.join(d, "case.mid")
                mido_file.save(path)
                loaded = Sequence.sequences_load(file_path=path, track_indices=None if case.get("defaults") else [list(g) for g in groups],
                                                 meta_track_indices=None if case.get("defaults") or case.get("meta_default") else list(meta_idx),
                                                 target_meta_track_index=target)
        else:
            mf = MidiFile()
            mf.parse_mido(mido_file)
            if case.get("loaded_before"):
                out.label("second-load-of-parsed-file")
                Sequence.sequences_load(midi_file=mf)
            loaded = Sequence.sequences_load(midi_file=mf, track_indices=None if case.get("defaults") else [list(g) for g in groups],
                                             meta_track_indices=None if case.get("defaults") or case.get("meta_default") else list(meta_idx),
                                             target_meta_track_index=target)
    except Exception as e:
        out.fail(f"load-raises:{type(e).__name__}", f"{e}")
        return out
    if len(loaded) != len(groups):
        out.fail("sequence-count", f"{len(loaded)} sequences for {len(groups)} groups")
        return out
    considered = sorted(grouped | set(meta_idx))
    all_sigs = sorted((s for i in considered for s in per_track_sigs[i]), key=lambda s: s[0])
    for gi, (g, s) in enumerate(zip(groups, loaded)):
        try:
            ev, _ = O.abs_events(s.abs)
        except O.Malformed as e:
            out.fail("malformed-output", f"group {gi}: {e}")
            return out
        got, an = O.notes(ev)
        if an:
            out.fail(f"ill-formed-output:{an[0][0]}", f"group {gi}: {an[:3]}")
        G = O.sounding(got)
        must, may = set(), set()
        for i in g:
            for ch, p, x_on, x_off in per_track_notes[i]:
                on_lo, on_hi = _cands(x_on)
                off_lo, off_hi = _cands(x_off)
                must |= {(ch, p, t) for t in range(on_hi, off_lo)}
                may |= {(ch, p, t) for t in range(on_lo, off_hi)}
        if not must <= G:
            out.fail("sound-missing", f"group {gi} {g}: missing {sorted(must - G)[:6]} (tpb {tpb})")
        if not G <= may:
            out.fail("sound-misplaced", f"group {gi} {g}: unexpected {sorted(G - may)[:6]} (tpb {tpb})")
        sig_ev = [e for e in ev if e[1] in (O.TS, O.KS)]
        if gi != target:
            if sig_ev:
                out.fail("signature-on-non-target", f"group {gi}: {sig_ev[:3]}")
            continue
        for kind in (O.TS, O.KS):
            have = [(e[0], (e[5], e[6]) if kind == O.TS else e[7]) for e in sig_ev if e[1] == kind]
            file_sigs = [(x, v) for x, k, v in all_sigs if k == kind]
            required, prev = [], None
            for x, v in file_sigs:
                if v != prev:
                    required.append((x, v))
                prev = v
            unused = list(have)
            for x, v in required:
                hit = next((h for h in unused if h[1] == v and abs(Fraction(h[0]) - x) <= Fraction(1, 2)), None)
                if hit is None:
                    out.fail(f"signature-missing:{kind}", f"{v} at exact {float(x):.3f} not on target; target has {have} (tpb {tpb})")
                    break
                unused.remove(hit)
            else:
                for h in unused:
                    if any(h[1] == v and abs(Fraction(h[0]) - x) <= Fraction(1, 2) for x, v in file_sigs):
                        continue
                    if kind == O.TS and h == (0, (4, 4)) and not any(_cands(x)[1] <= 0 for x, _ in file_sigs):
                        continue
                    out.fail(f"signature-invented:{kind}", f"{h} on target, file has {[(float(x), v) for x, v in file_sigs]}")
                    break
    return out
