"""C14 — transposition shifts each pitch class by the interval, keeping pitches in range."""
from hypothesis import strategies as st

from pbt import build, gens, oracles as O
from pbt.common import build_input
from pbt.runner import Outcome
from pbt.sut import Bar, Key, MusicMapping

ID = "C14"
LO, HI = 21, 108
MIN_NONTRIVIAL = 0.5
RULE = ("Hypothesis: well-formed sequences (pitches biased to both range ends 21..32 / 97..108, middle, and optionally outside the "
        "range), with/without key-signature events (all 15 keys), optionally wrapped in a Bar with a key; intervals from "
        "{0,+-1,+-5,+-7,+-12,+-24,+-88,+-100,+-127, random -200..200}; a quarter of the plain-sequence cases is a history on one object (transpose, then concatenate more "
        "notes or edit pitches in place, then the transposition under test). Oracle: independent wrap model (repeated +-12 into "
        "[21,108]); flag == any note wrapped; every output pitch in range and the image of an input pitch of its channel; "
        "no wrap => exact shift with onsets/durations/velocities untouched and transpose(-n) restores; key events / bar "
        "key never None and tonic shifted by n mod 12. Non-trivial: interval != +-1, or a key signature present, or a note "
        "within 12 of a range end. Distinct by case digest.")
RULE = RULE + " Round j: intervals 87+12k, single-key pools on 21 / 108."
ASSUMPTIONS = ["enharmonic spelling of transposed keys is free (tonic pitch class compared)",
               "when notes are octave-wrapped the library additionally normalises and re-quantises note lengths; only range, "
               "image-of-original and the flag are checked then (as the statement says)"]
TIERS = {"quick": dict(shards=8, examples=2000, alt_ppqn=[480], alt_shards=2),
         "thorough": dict(fuzz_runs=20000, fuzz_shards=4, shards=16, examples=20000, alt_ppqn=[480, 7, 1000], alt_shards=2)}

INTERVALS = [0, 1, -1, 5, -5, 7, -7, 12, -12, 24, -24, 88, -88, 100, -100, 127, -127, 36, -36,
             # the keyboard span (87) plus whole octaves, and neighbours
             87, -87, 99, -99, 111, -111, 123, -123, 135, -135, 110, -110, 112, -112]


def wrap(p):
    while p < LO:
        p += 12
    while p > HI:
        p -= 12
    return p


def tonic(key_value):
    return MusicMapping.KeyNoteMapping[Key(key_value)][0][0].value


@st.composite
def _case(draw):
    region = draw(st.sampled_from(["low", "high", "mid", "both", "outside", "full", "edge-low", "edge-high"]))
    pools = {"edge-low": [21], "edge-high": [108],"low": list(range(21, 33)), "high": list(range(97, 109)), "mid": list(range(55, 70)),
             "both": list(range(21, 27)) + list(range(103, 109)), "outside": [0, 5, 12, 20, 21, 108, 109, 115, 127],
             "full": list(range(0, 128))}
    pitches = draw(st.lists(st.sampled_from(pools[region]), min_size=1, max_size=5, unique=True))
    as_bar = draw(st.booleans())
    num, den = 4, 4
    if as_bar:
        num, den = draw(st.sampled_from([(4, 4), (3, 4), (6, 8), (2, 2), (5, 8)]))
    cap = 96 * num // den
    notes = draw(gens.wellformed_notes(channels=(0, 1), pitches=pitches, max_notes=6,
                                       max_len=24 if as_bar else 50, max_gap=10, start_max=10))
    if as_bar:
        notes = [n for n in notes if n[3] <= cap]
    with_keys = draw(st.booleans())
    meta = []
    if with_keys:
        limit = cap if as_bar else 120
        ticks = draw(st.lists(st.integers(0, limit), min_size=1, max_size=3, unique=True))
        meta = [["ks", t, draw(st.sampled_from(gens.KEYS))] for t in sorted(ticks)]
    spec = {"notes": notes, "meta": meta}
    spec.update(draw(gens.route()))
    spec["pad"] = None
    n = draw(st.one_of(st.sampled_from(INTERVALS), st.integers(-200, 200)))
    case = {"seq": spec, "n": n, "bar": None}
    if as_bar:
        case["bar"] = {"num": num, "den": den, "key": draw(st.one_of(st.none(), st.sampled_from(gens.KEYS)))}
    elif draw(st.integers(0, 5)) == 0:
        # "all sequences": not in normal form - a pitch of the pool struck again while it sounds and / or a note-on that is never
        # closed, added message by message; compared at event level
        p = draw(st.sampled_from(pitches))
        t1 = draw(st.integers(0, 40))
        t2 = t1 + draw(st.integers(1, 20))
        deco = [["on", 0, p, 80, t1], ["on", 0, p, 90, t2]] if draw(st.booleans()) else [["on", 1, p, 70, t2]]
        if draw(st.booleans()):
            deco.append(["off", 0, p, t2 + draw(st.integers(1, 30))])
        case["deco"] = deco
        spec["post"] = None if spec.get("post") == "normalise" else spec.get("post")
    elif draw(st.integers(0, 3)) == 0:
        # a history on one object: transpose, then more material arrives (concatenate / in-place pitch edit), then the
        # transposition under test
        pre = {"n": draw(st.sampled_from([1, -1, 2, -2, 5, -7, 12, -12, 0])), "how": draw(st.sampled_from(["concat", "edit"]))}
        if pre["how"] == "concat":
            pool2 = draw(st.lists(st.sampled_from(pools[draw(st.sampled_from(["low", "high", "both", "mid"]))]), min_size=1,
                                  max_size=3, unique=True))
            pre["extra"] = {"notes": draw(gens.wellformed_notes(channels=(0, 1), pitches=pool2, max_notes=3, max_len=30,
                                                                 max_gap=10, start_max=10)),
                            "meta": [], "route": draw(st.sampled_from(["rel", "abs_sorted"])), "pad": None}
        else:
            pre["to"] = draw(st.sampled_from([21, 22, 107, 108, 30, 100]))
        case["pre"] = pre
    return case


def strategy(params, shard, nshards):
    return _case()


def _check_event_level(out, case):
    """sequences that are not in normal form: every clause that can be read off the raw events"""
    n = case["n"]
    out.label("not-normal-form")
    try:
        seq = build.sequence(dict(case["seq"], extra_abs=case["deco"]))
        ev0, dur0 = O.seq_events(seq)
    except Exception as e:
        out.inconclusive = f"input-construction-raised:{type(e).__name__}"
        return out
    note_ev0 = [e for e in ev0 if e[1] in (O.NOTE_ON, O.NOTE_OFF)]
    pitches0 = [e[3] for e in note_ev0]
    expect_flag = any(wrap(p + n) != p + n for p in pitches0)
    out.nontrivial = True
    out.label("wraps" if expect_flag else "no-wrap")
    try:
        flag = seq.transpose(n)
        rep = build.replica(seq)
        ev_r, dur_r = O.rel_events(rep.rel)
        ev_a, dur_a = O.abs_events(rep.abs)
    except O.Malformed as e:
        out.fail("malformed-output", str(e))
        return out
    except Exception as e:
        out.fail("transpose-raises", f"{type(e).__name__}: {e}")
        return out
    if O.canon((ev_r, dur_r)) != O.canon((ev_a, dur_a)):
        out.fail("views-disagree", f"rel {O.canon((ev_r, dur_r))} abs {O.canon((ev_a, dur_a))}")
    if flag is not expect_flag:
        out.fail("flag", f"transpose({n}) returned {flag!r}, model says {expect_flag} for pitches {sorted(set(pitches0))}")
    by_ch = {}
    for e in note_ev0:
        by_ch.setdefault(e[2], set()).add(wrap(e[3] + n))
    for e in ev_r:
        if e[1] in (O.NOTE_ON, O.NOTE_OFF):
            if not (isinstance(e[3], int) and LO <= e[3] <= HI):
                out.fail("out-of-range", f"pitch {e[3]} after transpose({n})")
                break
            if e[3] not in by_ch.get(e[2], ()):
                out.fail("not-an-image", f"pitch {e[3]} on channel {e[2]} is no image of {sorted(set(pitches0))} under {n}")
                break
    if not expect_flag:
        want = O.canon(([e if e[1] not in (O.NOTE_ON, O.NOTE_OFF) else e[:3] + (e[3] + n,) + e[4:] for e in ev0
                         if e[1] != O.KS], dur0))
        got = O.canon(([e for e in ev_r if e[1] != O.KS], dur_r))
        if want != got:
            out.fail("exact-shift", f"n={n}: every note message must move by {n} and nothing else change: want {want} got {got}")
        elif all(LO <= p <= HI for p in pitches0):
            try:
                back = seq.transpose(-n)
                ev2 = O.seq_events(seq)
            except Exception as e:
                out.fail("inverse-raises", f"{type(e).__name__}: {e}")
                return out
            if back is not False or O.canon(([e for e in ev2[0] if e[1] != O.KS], ev2[1])) != \
                    O.canon(([e for e in ev0 if e[1] != O.KS], dur0)):
                out.fail("inverse", f"transpose({n}) then transpose({-n}) does not restore {ev0}: {ev2[0]}")
    return out


def check(case):
    out = Outcome()
    n = case["n"]
    if case.get("deco") and not case.get("bar"):
        return _check_event_level(out, case)
    built = build_input(out, case["seq"])
    if built is None:
        return out
    seq = built[0]
    bar = None
    try:
        if case["bar"]:
            b = case["bar"]
            bar = Bar(seq, b["num"], b["den"], Key(b["key"]) if b["key"] else None)
            seq = bar.sequence
            out.label("bar")
        ev0, dur0 = O.seq_events(seq)
        notes0, an0 = O.notes(ev0)
    except Exception as e:
        out.inconclusive = f"bar-construction-raised:{type(e).__name__}"
        return out
    if an0 or sorted(notes0) != sorted(built[3]):
        out.inconclusive = "bar-construction-deviates"
        return out
    pre = case.get("pre")
    if pre and not bar:
        out.label("history:" + pre["how"])
        try:
            flag0 = seq.transpose(pre["n"])
        except Exception as e:
            out.fail("transpose-raises", f"first transpose({pre['n']}): {type(e).__name__}: {e}")
            return out
        want0 = any(wrap(x[1] + pre["n"]) != x[1] + pre["n"] for x in notes0)
        if flag0 is not want0:
            out.fail("flag", f"first transpose({pre['n']}) returned {flag0!r}, model says {want0}")
            return out
        try:
            if pre["how"] == "concat":
                extra = build.sequence(pre["extra"])
                seq.concatenate([extra])
            else:
                # move every note of the lowest pitch of channel 0 to a pitch no note of that channel uses
                cur = sorted({m.note for m in seq.rel._messages if m.note is not None and m.channel == 0})
                used = {m.note for m in seq.rel._messages if m.note is not None}
                if cur and pre["to"] not in used:
                    for m in seq.messages_rel():
                        if m.channel == 0 and m.note == cur[0]:
                            m.note = pre["to"]
            ev0, dur0 = O.seq_events(seq)
            notes0, an0 = O.notes(ev0)
        except Exception as e:
            out.inconclusive = f"history-construction-raised:{type(e).__name__}"
            return out
        if an0 or O.overlaps(notes0):
            out.inconclusive = "history-construction-deviates"
            return out
    keys0 = [e for e in ev0 if e[1] == O.KS]
    pitches0 = [x[1] for x in notes0]
    expect_flag = any(wrap(p + n) != p + n for p in pitches0)
    out.nontrivial = abs(n) != 1 or bool(keys0) or bool(bar and case["bar"]["key"]) or \
        any(p - LO < 12 or HI - p < 12 for p in pitches0)
    out.label("wraps" if expect_flag else "no-wrap", "keys" if keys0 else "no-keys",
              "n%12==0" if n % 12 == 0 else "n%12!=0")

    try:
        flag = bar.transpose(n) if bar else seq.transpose(n)
    except Exception as e:
        out.fail("transpose-raises", f"{type(e).__name__}: {e}")
        return out
    try:
        rep = build.replica(seq)
        ev_r, dur_r = O.rel_events(rep.rel)
        ev_a, dur_a = O.abs_events(rep.abs)
    except O.Malformed as e:
        out.fail("malformed-output", str(e))
        return out
    except Exception as e:
        out.fail("unreadable-after-transpose", f"{type(e).__name__}: {e}")
        return out
    if O.canon((ev_r, dur_r)) != O.canon((ev_a, dur_a)):
        out.fail("views-disagree", f"rel {O.canon((ev_r, dur_r))} abs {O.canon((ev_a, dur_a))}")
    notes1, an1 = O.notes(ev_r)

    if flag is not expect_flag:
        out.fail("flag", f"transpose({n}) returned {flag!r}, model says {expect_flag} for pitches {sorted(set(pitches0))}")
    by_ch = {}
    for ch, p, *_ in notes0:
        by_ch.setdefault(ch, set()).add(wrap(p + n))
    for e in ev_r:
        if e[1] in (O.NOTE_ON, O.NOTE_OFF):
            if not (isinstance(e[3], int) and LO <= e[3] <= HI):
                out.fail("out-of-range", f"pitch {e[3]} after transpose({n})")
                break
            if e[3] not in by_ch.get(e[2], ()):
                out.fail("not-an-image", f"pitch {e[3]} on channel {e[2]} is no image of {sorted(set(pitches0))} under {n}")
                break
    if not expect_flag:
        want = sorted([ch, p + n, on, off, v] for ch, p, on, off, v in notes0)
        got = sorted(list(x) for x in notes1)
        if want != got or an1:
            out.fail("exact-shift", f"n={n} want {want} got {got} anomalies {an1}")
        if dur_r != dur0:
            out.fail("duration-changed", f"{dur0} -> {dur_r}")
    # key signatures
    keys1 = [e for e in ev_r if e[1] == O.KS]
    if len(keys1) != len(keys0) and not expect_flag:
        out.fail("key-events-count", f"{len(keys0)} -> {len(keys1)}")
    if not expect_flag:
        for k0, k1 in zip(sorted(keys0, key=lambda e: e[0]), sorted(keys1, key=lambda e: e[0])):
            _key_ok(out, k0[7], k1[7], n, f"key event at tick {k0[0]}")
    else:
        want_t = {(tonic(k[7]) + n) % 12 for k in keys0}
        for k1 in keys1:
            if k1[7] is None or str(k1[7]).startswith("?"):
                out.fail("key-undefined", f"key event {k1[7]!r} after transpose({n})")
            elif tonic(k1[7]) not in want_t:
                out.fail("key-tonic", f"key event {k1[7]} after transpose({n}) of {[k[7] for k in keys0]}")
    if bar is not None and case["bar"]["key"]:
        k1 = bar.key_signature
        _key_ok(out, case["bar"]["key"], k1.value if isinstance(k1, Key) else (None if k1 is None else "?" + repr(k1)), n,
                "bar.key_signature")
    # inverse
    # (only for originals that were inside the playable range themselves: an out-of-range original cannot be restored)
    if not expect_flag and not out.violations and all(LO <= p <= HI for p in pitches0):
        try:
            back = bar.transpose(-n) if bar else seq.transpose(-n)
            ev2, dur2 = O.seq_events(seq)
            notes2, an2 = O.notes(ev2)
        except Exception as e:
            out.fail("inverse-raises", f"{type(e).__name__}: {e}")
            return out
        if back is not False or notes2 != notes0 or an2 or dur2 != dur0:
            out.fail("inverse", f"transpose({n}) then transpose({-n}): flag {back}, notes {notes2} != {notes0}")
        keys2 = [e for e in ev2 if e[1] == O.KS]
        for k0, k2 in zip(sorted(keys0, key=lambda e: e[0]), sorted(keys2, key=lambda e: e[0])):
            if k2[7] is None or str(k2[7]).startswith("?") or tonic(k2[7]) != tonic(k0[7]):
                out.fail("inverse-key", f"{k0[7]} -> {k2[7]}")
    return out


def _key_ok(out, before, after, n, where):
    if after is None or str(after).startswith("?"):
        out.fail("key-undefined", f"{where}: {before} transposed by {n} became {after!r}")
    elif tonic(after) != (tonic(before) + n) % 12:
        out.fail("key-tonic", f"{where}: {before} transposed by {n} became {after}")
