"""C15 — merging sequences yields exactly the union of their music."""
from collections import defaultdict

from hypothesis import strategies as st

from pbt import build, gens, oracles as O
from pbt.common import read_views, build_input
from pbt.runner import Outcome
from pbt.sut import Sequence

ID = "C15"
MIN_NONTRIVIAL = 0.3
RULE = ("Hypothesis: 1-4 well-formed sequences over a shared pool of 2 channels x 2-3 pitches (so that overlapping, abutting, "
        "nested and identical notes of one key across inputs are frequent), different lengths, empty sequences, trailing "
        "rests, any construction route; time/key signature events at ticks distinct per kind across the inputs, or (a third of the multi-input cases) several inputs "
        "carrying a signature of one kind on the same tick with values from a two-value pool (A, B, A in merge order); receiver = "
        "first input or a fresh empty Sequence; a second merge of freshly built copies in a permuted order. Oracle: sounding "
        "set = union of the inputs' sets; output well-formed without overlap per key; every pair of strictly overlapping "
        "input notes of a key lies inside one output note; every signature event that does not repeat the one in force "
        "(over the tick-ordered union) is present at its tick and none is invented; the signature in force as a function of time read "
        "from the output list equals that of the inputs laid over each other in merge order; duration = max input duration; "
        "(channel, pitch, on, off) list identical for the permuted order. Non-trivial: >= 2 inputs and a strictly "
        "overlapping same-key pair across inputs or two inputs whose note spans intersect in time. Distinct by case digest.")
RULE = RULE + " Rounds e-g: equal-ratio signatures, same-tick signatures of several inputs with a merge-order model, channel pools, silent notes, far shifts, staggered families."
RULE = RULE + " Round h: all-silent families."
RULE = RULE + " Round i: channel numbers on signature events."
RULE = RULE + " Round j: an input repeated as a separate object with a longer closing rest."
RULE = RULE + " Round k: same-tick signatures with equal numerator and different denominator; channel-aware merge-order model."
ASSUMPTIONS = ["the velocity kept by a fused note is not part of the statement",
               "control/program changes are generated as noise but their fate is not part of the statement"]
TIERS = {"quick": dict(shards=8, examples=1200, alt_ppqn=[480], alt_shards=2),
         "thorough": dict(fuzz_runs=20000, fuzz_shards=4, size=2, shards=16, examples=15000, alt_ppqn=[480, 7, 1000], alt_shards=2)}


@st.composite
def _case(draw, size=1):
    k = draw(st.integers(1, 4))
    pitches = draw(gens.pitch_pool([(60, 61), (60,), (60, 61, 62)]))
    ts_ticks = draw(st.lists(st.integers(0, 150), max_size=4, unique=True))
    ks_ticks = draw(st.lists(st.integers(0, 150), max_size=4, unique=True))
    metas = [[] for _ in range(k)]
    for t in ts_ticks:
        metas[draw(st.integers(0, k - 1))].append(["ts", t, draw(st.integers(2, 5)), draw(st.sampled_from([4, 8]))])
    for t in ks_ticks:
        metas[draw(st.integers(0, k - 1))].append(["ks", t, draw(st.one_of(st.sampled_from(["C", "G", "Db", "C#", "F#", "Gb", "B", "Cb"]),
                                                                       st.sampled_from(gens.KEYS)))])
    same_tick = k >= 2 and bool(ts_ticks or ks_ticks) and draw(st.integers(0, 2)) == 0
    if same_tick:
        # several inputs carry a signature of one kind on the SAME tick (values from a two-value pool: A, B, A in merge order);
        # the library's sort is documented as stable, so among equal-channel events the merge order decides which is in force
        kind = draw(st.sampled_from([x for x, ticks in (("ts", ts_ticks), ("ks", ks_ticks)) if ticks]))
        t = draw(st.sampled_from(ts_ticks if kind == "ts" else ks_ticks))
        pool = draw(st.lists(st.tuples(st.integers(2, 5), st.sampled_from([4, 8])) if kind == "ts" else st.sampled_from(gens.KEYS),
                             min_size=2, max_size=2))
        if kind == "ts" and draw(st.booleans()):
            pool = [pool[0], (pool[0][0], 12 - pool[0][1])]          # same numerator, the other denominator (3/4 and 3/8)
        for i in range(k):
            metas[i] = [m for m in metas[i] if not (m[0] == kind and m[1] == t)]
            if draw(st.integers(0, 3)) > 0:
                v = draw(st.sampled_from(pool))
                metas[i].append(["ts", t, v[0], v[1]] if kind == "ts" else ["ks", t, v])
    if not same_tick and draw(st.integers(0, 2)) == 0:
        # the signature events carry different channel numbers (which signature is in force does not depend on them)
        for i in range(k):
            metas[i] = [list(m) + [draw(st.sampled_from([0, 1, 1, 2]))] for m in metas[i]]
    silent_family = draw(st.integers(0, 19)) == 0       # nothing but rests in every input
    if silent_family:
        metas = [[] for _ in range(k)]
    seqs = []
    for i in range(k):
        if silent_family or draw(st.integers(0, 7)) == 0:
            notes = []
        else:
            notes = draw(gens.wellformed_notes(channels="pool", pitches=pitches, max_notes=6 * size, max_len=40, max_gap=25,
                                               start_max=50))
        meta = metas[i]
        if not silent_family and draw(st.integers(0, 3)) == 0:
            meta = meta + [["cc", draw(st.integers(0, 100)), 7, draw(st.integers(0, 127))]]
        spec = {"notes": notes, "meta": meta}
        spec.update(draw(gens.route()))
        end = max([n[3] for n in notes] + [m[1] for m in meta] + [0])
        spec["pad"] = draw(st.one_of(st.none(), st.just(end + draw(st.integers(0, 40)))))
        seqs.append(spec)
    if k >= 3 and draw(st.integers(0, 3)) == 0:
        # staggered: the first input (the receiver in half of the cases) ends before any other input begins, and the others
        # interleave with one another
        end0 = max([n[3] for n in seqs[0]["notes"]] + [m[1] for m in seqs[0]["meta"]] + [seqs[0]["pad"] or 0])
        for spec in seqs[1:]:
            spec["shift"] = end0 + draw(st.integers(0, 3))
            if spec["pad"] is not None:
                spec["pad"] += spec["shift"]
    elif draw(st.integers(0, 11)) == 0:
        sh = draw(st.sampled_from(gens.FAR))      # the whole family far from tick 0
        for spec in seqs:
            spec["shift"] = sh
            if spec["pad"] is not None:
                spec["pad"] += sh
    if draw(st.integers(0, 7)) == 0:
        import copy as _copy
        twin = _copy.deepcopy(seqs[draw(st.integers(0, len(seqs) - 1))])
        end_t = max([n[3] for n in twin["notes"]] + [m[1] for m in twin["meta"]] + [0]) + twin.get("shift", 0)
        twin["pad"] = end_t + draw(st.integers(1, 60))          # the same music with a longer closing rest, as a separate object
        seqs.insert(draw(st.integers(0, len(seqs))), twin)
        k = len(seqs)
    return {"seqs": seqs, "receiver": draw(st.sampled_from(["first", "fresh"])),
            "perm": draw(st.permutations(list(range(k)))), "twice": draw(st.integers(0, 5)) == 0}


def strategy(params, shard, nshards):
    # thorough tier: odd shards draw larger cases (size 2), even shards keep the small, dense ones
    return _case(size=params.get("size", 1) if shard % 2 else 1)


def _merge(specs, receiver, twice=False):
    seqs = [build.sequence(s) for s in specs]
    if twice:
        seqs.append(seqs[-1])        # the very same Sequence object handed in twice (its union is unchanged)
    if receiver == "first":
        r = seqs[0]
        r.merge(seqs[1:])
    else:
        r = Sequence()
        r.merge(seqs)
    return r


def check(case):
    out = Outcome()
    specs = case["seqs"]
    contents = []
    all_notes = []
    per_input = []
    for s in specs:
        built = build_input(out, s)
        if built is None:
            return out
        _, ev, d, ns = built
        contents.append((ev, d))
        per_input.append(ns)
        all_notes.extend(ns)
    dmax = max(d for _, d in contents)
    by_key = defaultdict(list)
    for i, ns in enumerate(per_input):
        for n in ns:
            by_key[(n[0], n[1])].append((n[2], n[3], i))
    pairs = []
    for key, lst in by_key.items():
        for a in range(len(lst)):
            for b in range(a + 1, len(lst)):
                x, y = lst[a], lst[b]
                if x[2] != y[2] and max(x[0], y[0]) < min(x[1], y[1]):
                    pairs.append((key, x, y))
    spans = [(min(n[2] for n in ns), max(n[3] for n in ns)) for ns in per_input if ns]
    interleaved = any(a[0] < b[1] and b[0] < a[1] for i, a in enumerate(spans) for b in spans[i + 1:])
    out.nontrivial = len(specs) >= 2 and (bool(pairs) or interleaved)
    out.label(f"inputs={len(specs)}", "receiver-" + case["receiver"], *(["overlapping-pair"] if pairs else []))
    try:
        merged = _merge(specs, case["receiver"], case.get("twice", False))
    except Exception as e:
        out.fail("merge-raises", f"{type(e).__name__}: {e}")
        return out
    res = read_views(out, merged, "merge")
    if res is None:
        return out
    ev1, d1 = res
    notes1, an1 = O.notes(ev1)
    if an1:
        out.fail(f"ill-formed-output:{an1[0][0]}", f"{an1[:4]}")
    if O.overlaps(notes1):
        out.fail("overlap-in-output", f"{O.overlaps(notes1)[:2]}")
    want = O.sounding(all_notes)
    got = O.sounding(notes1)
    if want != got:
        out.fail("sounding-set-not-union", f"lost {sorted(want - got)[:5]} gained {sorted(got - want)[:5]} inputs {per_input}")
    for key, x, y in pairs:
        lo, hi = min(x[0], y[0]), max(x[1], y[1])
        if not any(n[0] == key[0] and n[1] == key[1] and n[2] <= lo and hi <= n[3] for n in notes1):
            out.fail("overlapping-notes-not-fused", f"key {key}: {x[:2]} and {y[:2]} overlap, output {[n for n in notes1 if (n[0], n[1]) == key]}")
            break
    # signatures
    # inputs laid over each other in merge order; on one tick the library's documented sort puts lower channels first and is
    # stable otherwise (staggered families can bring signature events of different channels onto one tick)
    union = [e for ev, _ in contents for e in ev]
    union = [e for _, e in sorted(enumerate(union), key=lambda ie: (ie[1][0], ie[1][2] if ie[1][2] is not None else -1, ie[0]))]
    for kind in (O.TS, O.KS):
        keep = O.in_force(union, kind)
        have = [(e[0], (e[5], e[6]) if kind == O.TS else e[7]) for e in ev1 if e[1] == kind]
        for pt in keep:
            if pt not in have:
                out.fail(f"signature-lost:{kind}", f"{pt} in force-changing union {keep}, output has {have}")
                break
        # the signature in force as a function of time must be the one of the inputs laid over each other in merge order
        if O.in_force(ev1, kind) != keep:
            out.fail(f"signature-in-force:{kind}", f"inputs in merge order give {keep}, output list gives {O.in_force(ev1, kind)} (events {have})")
        src = [(e[0], (e[5], e[6]) if kind == O.TS else e[7]) for e in union if e[1] == kind]
        for pt in have:
            if pt not in src:
                out.fail(f"signature-invented:{kind}", f"{pt} not in inputs {src}")
                break
    if d1 != dmax:
        out.fail("duration-not-max", f"merged lasts {d1}, inputs {[d for _, d in contents]}")
    # order independence
    if len(specs) >= 2:
        try:
            merged2 = _merge([specs[i] for i in case["perm"]], case["receiver"], case.get("twice", False))
            ev2, d2 = O.seq_events(merged2)
        except Exception as e:
            out.fail("merge-raises", f"permuted order: {type(e).__name__}: {e}")
            return out
        n2, _ = O.notes(ev2)
        if [n[:4] for n in n2] != [n[:4] for n in notes1]:
            out.fail("order-dependent", f"order {list(range(len(specs)))}: {[n[:4] for n in notes1]}; order {case['perm']}: {[n[:4] for n in n2]}")
    return out
