"""C16 — copies and derived sequences are independent values."""
from hypothesis import strategies as st

from pbt import build, gens, ops, oracles as O
from pbt.common import build_input
from pbt.runner import Outcome
from pbt.sut import Bar, Composition, Key, Sequence, Track

ID = "C16"
MIN_NONTRIVIAL = 0.4
RULE = ("Hypothesis: original (well-formed, 2 channels, any construction route / freshness state) x derivation route in "
        "{Sequence.copy, split(caps), sequences_split_bars with either re-quantisation setting, Bar.copy, Track.copy, "
        "Composition.copy} x an op list (1-4 public operations: set_channel, transpose, scale, pad, quantise, cutoff, normalise, "
        "quantise_note_lengths, edits through messages_abs()/messages_rel(), add messages, merge/concatenate with throw-away "
        "arguments) applied to one side, then an op list applied to the other side; split capacities as drawn or re-cut to end on the "
        "source's final tick, with a non-note event placed there. Oracle: right after derivation a copy's "
        "canonical content (and signature / key / bar and track counts) equals the original's and copy == original; after each "
        "op list the untouched side's canonical content read through BOTH views on a replica is unchanged, its two raw views "
        "still agree, and no message object is shared between the two sides. Non-trivial: the op lists contain an operation "
        "that mutates message objects in place (transpose, set_channel, scale, iterator edits). Distinct by case digest.")
RULE = RULE + " Rounds e-g: capacities ending on the final tick with a non-note event there, empty capacity lists, INTERNAL markers among the ops, bars edited before they are copied."
RULE = RULE + " Round i: pre-copy edits applied after the Track / Composition was built, incl. two different program changes."
RULE = RULE + " Round j: self-concatenated sources on the Sequence.copy route."
ASSUMPTIONS = ["an operation that raises on one side ends that side's op list; the other side is still compared"]
TIERS = {"quick": dict(shards=8, examples=500, alt_ppqn=[480], alt_shards=2),
         "thorough": dict(shards=16, examples=6000, alt_ppqn=[480, 7, 1000], alt_shards=2)}

ROUTES = ["seq_copy", "split", "split_bars", "bar_copy", "track_copy", "composition_copy"]


@st.composite
def _case(draw):
    route = draw(st.sampled_from(ROUTES))
    n_src = 2 if route in ("composition_copy",) or (route == "split_bars" and draw(st.booleans())) else 1
    srcs = []
    for i in range(n_src):
        sig = draw(st.sampled_from([[4, 4], [3, 4], [6, 8], [2, 4]]))
        notes = draw(gens.wellformed_notes(channels=(0, 1), pitches=draw(gens.pitch_pool([(60, 61, 64)])), max_notes=6, max_len=60, max_gap=40))
        meta = []
        if route != "bar_copy" and i == 0 and draw(st.booleans()):
            meta.append(["ts", 0, sig[0], sig[1]])
        if draw(st.booleans()):
            meta.append(["ks", 0, draw(st.sampled_from(gens.KEYS))])
        spec = {"notes": notes, "meta": meta}
        spec.update(draw(gens.route()))
        end = max([n[3] for n in notes] + [0])
        spec["pad"] = draw(st.one_of(st.none(), st.just(end + draw(st.integers(0, 40)))))
        if route == "split" and draw(st.booleans()):
            # a non-note event on the final tick (together with capacities that end exactly there, see caps_mode)
            last = max(end, spec["pad"] or 0)
            meta.append(draw(st.sampled_from([["ks", last, "D"], ["cc", last, 7, 100], ["pc", last, 5], ["ts", last, 3, 4]])))
        if route == "seq_copy" and draw(st.integers(0, 3)) == 0:
            spec["double"] = draw(st.sampled_from(["self", "fresh"]))      # every message object occurs twice in the source
            spec["post"] = draw(st.sampled_from([None, "read_abs", "refresh"]))
        if i > 0 and draw(st.integers(0, 3)) == 0:
            spec = {"notes": [], "meta": [], "route": "abs_sorted", "pad": None, "post": None}     # a message-less track
        srcs.append(spec)
    return {"route": route, "srcs": srcs, "caps": draw(st.lists(st.integers(1, 80), min_size=0, max_size=3)),
            # capacities as given, or re-cut so that they end exactly on the source's final tick
            "caps_mode": draw(st.sampled_from(["given", "to_end", "to_end"])),
            # bar / track / composition routes: the bar was edited after its creation and before it is copied (edits that keep it
            # a valid bar, and edits after which the constructor's checks no longer pass: then copy() either refuses or must
            # still return an independent value)
            "pre_edit": draw(st.sampled_from([None, None, None, "pad_over", "scale2", "extra_ts", "transpose1", "two_programs"])),
            "requant": draw(st.booleans()), "key": draw(st.one_of(st.none(), st.sampled_from(gens.KEYS))),
            "first": draw(st.sampled_from(["derived", "original"])),
            "ops1": draw(st.lists(ops.op_strategy(ops.MUTATOR_OPS), min_size=1, max_size=4)),
            "ops2": draw(st.lists(ops.op_strategy(ops.MUTATOR_OPS), min_size=0, max_size=3)),
            "targets": draw(st.lists(st.integers(0, 50), min_size=8, max_size=8))}


def strategy(params, shard, nshards):
    return _case()


def _snapshot(seqs):
    """[(canon via abs accessor, canon via rel accessor)] read on replicas + passive agreement of the raw slots"""
    snap = []
    for s in seqs:
        if not s._abs_stale and not s._rel_stale:
            if O.canon_abs(s._abs) != O.canon_rel(s._rel):
                return None, f"raw views disagree: abs {O.canon_abs(s._abs)} rel {O.canon_rel(s._rel)}"
        rep = build.replica(s)
        snap.append((O.canon_abs(rep.abs), O.canon_rel(rep.rel)))
    return snap, None


def _ids(seqs):
    r = set()
    for s in seqs:
        for v in (getattr(s, "_abs", None), getattr(s, "_rel", None)):
            if v is not None:
                r |= {id(m) for m in v._messages}
    return r


def _run_ops(seqs, oplist, targets):
    in_place = False
    for k, op in enumerate(oplist):
        if not seqs:
            break
        s = seqs[targets[k % len(targets)] % len(seqs)]
        try:
            ops.apply(s, op)
        except Exception:
            break
        in_place = in_place or op[0] in ops.MUTATORS_IN_PLACE
    return in_place


def check(case):
    out = Outcome()
    route = case["route"]
    out.label(route)
    srcs = []
    for spec in case["srcs"]:
        built = build_input(out, spec)
        if built is None:
            return out
        srcs.append(built[0])
    equal_expected = None
    try:
        if route == "seq_copy":
            originals, derived = [srcs[0]], [srcs[0].copy()]
            equal_expected = (originals[0], derived[0])
        elif route == "split":
            caps = list(case["caps"])
            if case.get("caps_mode") == "to_end":
                total = O.seq_events(srcs[0])[1]
                cut, acc = [], 0
                for c in caps[:-1]:
                    if acc + c < total:
                        cut.append(c)
                        acc += c
                if total - acc > 0:
                    cut.append(total - acc)
                caps = cut or caps
                out.label("split-ends-on-final-tick")
            originals, derived = [srcs[0]], srcs[0].split(caps)
        elif route == "split_bars":
            tb = Sequence.sequences_split_bars(srcs, 0, quantise_note_lengths=case["requant"])
            originals, derived = srcs, [b.sequence for bars in tb for b in bars]
        else:
            tb = Sequence.sequences_split_bars([s.copy() for s in srcs], 0, quantise_note_lengths=case["requant"])
            def _pre_edit():
                pre = case.get("pre_edit")
                if not pre:
                    return
                from pbt.sut import Message, MT
                out.label("edited-before-copy:" + pre)
                s0 = tb[0][0].sequence
                if pre == "pad_over":
                    s0.pad(O.seq_events(s0)[1] + 24 * 5)
                elif pre == "scale2":
                    s0.scale(2, quantise_afterwards=False)
                elif pre == "extra_ts":
                    s0.add_absolute_message(Message(message_type=MT.TIME_SIGNATURE, numerator=5, denominator=8, time=3))
                elif pre == "two_programs":
                    s0.add_absolute_message(Message(message_type=MT.PROGRAM_CHANGE, program=3, time=0))
                    s0.add_absolute_message(Message(message_type=MT.PROGRAM_CHANGE, program=40, time=1))
                else:
                    s0.transpose(1)

            if route == "bar_copy":
                bar = tb[0][0]
                bar.key_signature = Key(case["key"]) if case["key"] else None
                _pre_edit()
                cpy = bar.copy()
                originals, derived = [bar.sequence], [cpy.sequence]
                attrs = ((bar.time_signature_numerator, bar.time_signature_denominator, bar.key_signature),
                         (cpy.time_signature_numerator, cpy.time_signature_denominator, cpy.key_signature))
            elif route == "track_copy":
                track = Track(tb[0], name="t")
                _pre_edit()          # (the bar is edited after the track was built from it)
                cpy = track.copy()
                originals, derived = [b.sequence for b in track.bars], [b.sequence for b in cpy.bars]
                attrs = ((len(track.bars), track.name), (len(cpy.bars), cpy.name))
            else:
                comp = Composition([Track(bars) for bars in tb])
                _pre_edit()
                cpy = comp.copy()
                originals = [b.sequence for t in comp.tracks for b in t.bars]
                derived = [b.sequence for t in cpy.tracks for b in t.bars]
                attrs = ([len(t.bars) for t in comp.tracks], [len(t.bars) for t in cpy.tracks])
            if attrs[0] != attrs[1]:
                out.fail(f"copy-attributes:{route}", f"{attrs[0]} vs {attrs[1]}")
            equal_expected = "all"
    except Exception as e:
        out.inconclusive = f"derivation-raised:{route}:{type(e).__name__}"
        return out
    if case.get("pre_edit") and route in ("bar_copy", "track_copy", "composition_copy"):
        # the copy is re-built by the Bar constructor (re-normalised, re-padded: a wrapping transposition re-quantises note lengths and
        # leaves the bar short); only independence is claimed for an edited bar
        equal_expected = None
    try:
        snap_o, err = _snapshot(originals)
        snap_d, err2 = _snapshot(derived)
    except Exception as e:
        out.fail(f"unreadable-after-derivation:{route}", f"{type(e).__name__}: {e}")
        return out
    if err or err2:
        out.fail(f"views-disagree-after-derivation:{route}", err or err2)
        return out
    if equal_expected == "all":
        if snap_o != snap_d:
            out.fail(f"copy-differs:{route}", f"{snap_o} vs {snap_d}")
        elif not all(a == b for a, b in zip(originals, derived)):
            out.fail(f"copy-not-equal:{route}", "== is False for a bar sequence and its copy")
    elif equal_expected is not None:
        a, b = equal_expected
        if snap_o != snap_d:
            out.fail(f"copy-differs:{route}", f"{snap_o} vs {snap_d}")
        elif not (a == b and b == a and a.equals(b)):
            out.fail(f"copy-not-equal:{route}", "copy == original is False")
    if _ids(originals) & _ids(derived):
        out.fail(f"shared-message-objects:{route}", "a Message object is reachable from both the original and the derived sequence")
        return out
    first, second = (derived, originals) if case["first"] == "derived" else (originals, derived)
    snap_second = snap_o if case["first"] == "derived" else snap_d
    in_place1 = _run_ops(first, case["ops1"], case["targets"])
    try:
        now, err = _snapshot(second)
    except Exception as e:
        out.fail(f"other-side-unreadable:{route}", f"after ops on the {case['first']} side: {type(e).__name__}: {e}")
        return out
    if err:
        out.fail(f"other-side-views-disagree:{route}", f"after {[o[0] for o in case['ops1']]} on the {case['first']} side: {err}")
        return out
    if now != snap_second:
        out.fail(f"other-side-changed:{route}", f"ops {[o[0] for o in case['ops1']]} on the {case['first']} side changed the other side: "
                                                f"{snap_second} -> {now}")
        return out
    try:
        snap_first, err = _snapshot(first)
    except Exception:
        snap_first, err = None, None
    in_place2 = _run_ops(second, case["ops2"], case["targets"][3:] + case["targets"][:3])
    if snap_first is not None and not err:
        try:
            now, err = _snapshot(first)
        except Exception as e:
            out.fail(f"other-side-unreadable:{route}", f"after ops on the second side: {type(e).__name__}: {e}")
            return out
        if err:
            out.fail(f"other-side-views-disagree:{route}", f"after {[o[0] for o in case['ops2']]}: {err}")
        elif now != snap_first:
            out.fail(f"other-side-changed:{route}", f"ops {[o[0] for o in case['ops2']]} on the second side changed the first side: "
                                                    f"{snap_first} -> {now}")
    out.nontrivial = in_place1 or in_place2
    return out
