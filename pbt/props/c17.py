"""C17 — equals distinguishes exactly the sequences that differ musically."""
import copy
import itertools

from hypothesis import strategies as st

from pbt import build, gens
from pbt.runner import Outcome

ID = "C17"
MIN_NONTRIVIAL = 0.5
RULE = ("Hypothesis: base = well-formed sequence on 1-2 channels with time/key signature events (consecutive values differ); "
        "partner = itself / copy() / the same events rebuilt through another construction route or insertion order, or "
        "the base re-pitched in place through messages_abs() after a first comparison vs. a partner built with the new pitch "
        "('same'), or a single-attribute perturbation that keeps well-formedness: pitch, onset (both ends shifted), "
        "duration, velocity, channel of one note, note added/removed (incl. the last in time order), signature value / "
        "tick / added / removed for both signature kinds, uniform relabelling of a single-channel sequence. All 16 flag "
        "combinations are evaluated per pair, both argument orders, plus ==. Ground truth: 'same' => True everywhere; "
        "perturbed => False unless exactly the owning ignore flag is set (then True). Non-trivial = perturbation cases; "
        "distinct by case digest.")
RULE = RULE + " Round f: an identical ill-formed decoration (a pitch struck twice without note-off) on both sides."
RULE = RULE + " Round i: enharmonic twins as the perturbed key value."
RULE = RULE + " Round j: double perturbations (velocity + duration / pitch)."
RULE = RULE + " Round k: two signatures of one kind on one tick, built through different representations."
ASSUMPTIONS = ["for a single-note channel change the result under ignore_channel is not specified by the statement and not checked",
               "trailing rests (total duration) are not an attribute the statement lists; partners always have equal content"]
TIERS = {"quick": dict(shards=8, examples=1200, alt_ppqn=[480], alt_shards=2),
         "thorough": dict(shards=16, examples=12000, alt_ppqn=[480, 7, 1000], alt_shards=2)}

FLAGS = ["ch", "ts", "ks", "vel"]
OWNER = {"velocity": "vel", "ts_value": "ts", "ts_tick": "ts", "ts_add": "ts", "ts_remove": "ts",
         "ks_value": "ks", "ks_tick": "ks", "ks_add": "ks", "ks_remove": "ks", "relabel": "ch"}
PERTURB = ["pitch", "onset", "duration", "velocity", "channel1", "note_add", "note_remove",
           "ts_value", "ts_tick", "ts_add", "ts_remove", "ks_value", "ks_tick", "ks_add", "ks_remove", "relabel",
           "velocity+duration", "velocity+pitch"]


@st.composite
def _meta(draw, ch):
    """signature events at distinct ticks per kind, consecutive values different"""
    ev = []
    for kind in ("ts", "ks"):
        ticks = sorted(draw(st.lists(st.integers(0, 120), max_size=3, unique=True)))
        prev = None
        for t in ticks:
            if kind == "ts":
                val = draw(st.tuples(st.integers(1, 12), st.sampled_from(gens.DENOMS)).filter(lambda v: v != prev))
                ev.append(["ts", t, val[0], val[1], draw(st.sampled_from(ch)) if isinstance(ch, (list, tuple)) else ch])
            else:
                val = draw(st.sampled_from(gens.KEYS).filter(lambda v: v != prev))
                ev.append(["ks", t, val, draw(st.sampled_from(ch)) if isinstance(ch, (list, tuple)) else ch])
            prev = val
    return ev


def _room(notes, i):
    """free ticks after the end / before the start of note i within its (channel, pitch)"""
    ch, p, on, off, _ = notes[i]
    same = sorted(n for n in notes if n[0] == ch and n[1] == p)
    j = same.index(notes[i])
    after = (same[j + 1][2] - off) if j + 1 < len(same) else 1000
    before = (on - same[j - 1][3]) if j > 0 else on
    return before, after


@st.composite
def _case(draw):
    attr = draw(st.one_of(st.just("same"), st.sampled_from(PERTURB), st.sampled_from(PERTURB)))
    # (signature perturbations mostly on two-channel material: which channel appears first on a shared tick must not matter)
    single = attr == "relabel" or (draw(st.integers(0, 3)) == 0 if attr[:3] in ("ts_", "ks_") else draw(st.booleans()))
    c0 = draw(st.integers(0, 3))
    channels = (c0,) if single else (0, 1)
    notes = draw(gens.wellformed_notes(channels=channels, pitches=(60, 61, 62), max_notes=6, max_len=30, max_gap=20))
    # (on two-channel material the signature events sit on either channel, often on the tick of a note onset)
    meta = draw(_meta(c0 if single else [0, 1, 1]))
    if not single and notes and draw(st.booleans()):
        onsets = sorted({n[2] for n in notes})
        original = copy.deepcopy(meta)
        for m in meta:
            if draw(st.booleans()):
                t = draw(st.sampled_from(onsets))
                if not any(x is not m and x[0] == m[0] and x[1] == t for x in meta):
                    m[1] = t
        for kind in ("ts", "ks"):
            vals = [tuple(m[2:-1]) for m in sorted((m for m in meta if m[0] == kind), key=lambda m: m[1])]
            if any(a == b for a, b in zip(vals, vals[1:])):
                meta = original          # (moving must not create a restated signature: normalising one side would drop it)
                break
    base = {"notes": notes, "meta": meta, "pad": None}
    base.update(draw(gens.route()))
    if attr != "relabel" and draw(st.integers(0, 3)) == 0:
        # identical ill-formed decoration on both sides: a pitch outside every pool struck twice without a note-off in between
        # (optionally closed once afterwards) on a channel that also carries ordinary notes
        t1 = draw(st.integers(0, 60))
        t2 = t1 + draw(st.integers(1, 30))
        deco = [["on", channels[0], 100, 80, t1], ["on", channels[0], 100, 90, t2]]
        if draw(st.booleans()):
            deco.append(["off", channels[0], 100, t2 + draw(st.integers(1, 40))])
        base["extra_abs"] = deco
    other = copy.deepcopy(base)
    other.update(draw(gens.route()))
    end = max([n[3] for n in notes] + [m[1] for m in meta] + [0])
    on_ = other["notes"]
    om = other["meta"]
    how = "rebuild"

    def sig_idx(kind):
        return [i for i, m in enumerate(om) if m[0] == kind]

    if attr == "same" and not base.get("extra_abs") and meta and draw(st.integers(0, 4)) == 0:
        # two different signatures of one kind on one tick (the later one is in force): the same events, in the same order, built
        # once message by message in absolute time and once as a relative list
        how = "rebuild"
        m0 = draw(st.sampled_from(meta))
        twin_sig = list(m0)
        if m0[0] == "ts":
            twin_sig[2] = m0[2] % 12 + 1
        else:
            twin_sig[2] = draw(st.sampled_from(gens.KEYS).filter(lambda v: v != m0[2]))
        for spec_ in (base, other):
            spec_["meta"] = [list(x) for x in meta] + [list(twin_sig)]
            spec_["post"] = None
            spec_.pop("perm", None)
        base["route"], other["route"] = draw(st.sampled_from([("abs_sorted", "rel"), ("rel", "abs_sorted"), ("abs_obj", "rel")]))
    elif attr == "same":
        how = draw(st.sampled_from(["self", "copy", "rebuild", "edited", "edited"]))
        if how == "edited" and on_:
            # the base is first compared once (any internal ordering is established), then one note is re-pitched in
            # place through messages_abs(), possibly past a note sounding on the same tick; the partner is built
            # from scratch with the new pitch
            i = draw(st.integers(0, len(on_) - 1))
            new = draw(st.one_of(st.integers(40, 59), st.integers(63, 90)))
            other["edit"] = {"channel": on_[i][0], "old": on_[i][1], "on": on_[i][2], "off": on_[i][3], "new": new}
            on_[i][1] = new
        elif how == "edited":
            how = "rebuild"
    elif attr in ("velocity+duration", "velocity+pitch"):
        # one note differs in its velocity AND in an attribute no flag relaxes: unequal under every flag combination
        if not on_:
            attr, how = "same", "rebuild"
        else:
            i = draw(st.integers(0, len(on_) - 1))
            n = on_[i]
            n[4] = draw(st.integers(1, 127).filter(lambda v: v != n[4]))
            if attr == "velocity+pitch":
                n[1] = draw(st.integers(70, 90))
            elif _room(on_, i)[1] > 0:
                n[3] += draw(st.integers(1, min(_room(on_, i)[1], 30)))
            elif n[3] - n[2] > 1:
                n[3] -= 1
            else:
                attr = "velocity+pitch"
                n[1] = draw(st.integers(70, 90))
    elif attr in ("pitch", "onset", "duration", "velocity", "channel1", "note_remove"):
        if not on_:
            attr, how = "same", "rebuild"
        else:
            i = draw(st.integers(0, len(on_) - 1))
            n = on_[i]
            before, after = _room(on_, i)
            if attr == "pitch":
                n[1] = draw(st.integers(70, 90))
            elif attr == "velocity":
                n[4] = draw(st.one_of(st.integers(1, 127), st.sampled_from([0, 127, 1])).filter(lambda v: v != n[4]))
            elif attr == "channel1":
                n[0] = draw(st.integers(5, 9))
            elif attr == "note_remove":
                if draw(st.booleans()):
                    i = max(range(len(on_)), key=lambda j: (on_[j][2], on_[j][3]))  # the last one in time order
                on_.pop(i)
            elif attr == "onset":
                opts = [end + 1 + draw(st.integers(0, 20)) - n[2]]
                if after > 0:
                    opts.append(draw(st.integers(1, min(after, 30))))
                if before > 0:
                    opts.append(-draw(st.integers(1, min(before, 30))))
                d = draw(st.sampled_from(opts))
                n[2] += d
                n[3] += d
            elif attr == "duration":
                opts = []
                if after > 0:
                    opts.append(draw(st.integers(1, min(after, 30))))
                if n[3] - n[2] > 1:
                    opts.append(-draw(st.integers(1, n[3] - n[2] - 1)))
                if opts:
                    n[3] += draw(st.sampled_from(opts))
                else:
                    attr = "pitch"
                    n[1] = draw(st.integers(70, 90))
    elif attr == "note_add":
        t = draw(st.one_of(st.just(end + draw(st.integers(0, 10))), st.integers(0, max(end, 1))))
        on_.append([channels[0], draw(st.integers(70, 90)), t, t + draw(st.integers(1, 20)), draw(st.integers(1, 127))])
    elif attr in ("ts_value", "ts_tick", "ts_remove", "ks_value", "ks_tick", "ks_remove"):
        kind = attr[:2]
        idx = sig_idx(kind)
        if not idx:
            attr = kind + "_add"
        else:
            i = draw(st.sampled_from(idx))
            if attr.endswith("remove"):
                if draw(st.booleans()):
                    i = max(idx, key=lambda j: om[j][1])
                om.pop(i)
            elif attr.endswith("tick"):
                used = {om[j][1] for j in idx}
                om[i][1] = draw(st.integers(0, end + 30).filter(lambda t: t not in used))
            elif kind == "ts":
                old = (om[i][2], om[i][3])
                new = draw(st.tuples(st.integers(1, 12), st.sampled_from(gens.DENOMS)).filter(lambda v: v != old))
                om[i][2], om[i][3] = new
            else:
                twin = {"Db": "C#", "C#": "Db", "Gb": "F#", "F#": "Gb", "Cb": "B", "B": "Cb"}.get(om[i][2])
                if twin and draw(st.booleans()):
                    om[i][2] = twin          # a different key signature that sounds the same (enharmonic spelling)
                else:
                    om[i][2] = draw(st.sampled_from(gens.KEYS).filter(lambda v: v != om[i][2]))
    if attr in ("ts_add", "ks_add"):
        kind = attr[:2]
        used = {om[j][1] for j in sig_idx(kind)}
        t = draw(st.one_of(st.just(end + 5), st.integers(0, end + 30)).filter(lambda t: t not in used))
        mch = c0 if single else 0
        if kind == "ts":
            om.append(["ts", t, draw(st.integers(1, 12)), draw(st.sampled_from(gens.DENOMS)), mch])
        else:
            om.append(["ks", t, draw(st.sampled_from(gens.KEYS)), mch])
    if attr == "relabel":
        if not on_:
            attr = "same"  # the statement's channel clause is about notes; a meta-only relabelling is not claimed
        else:
            c1 = draw(st.integers(0, 9).filter(lambda c: c != c0))
            for n in on_:
                n[0] = c1
            for m in om:
                m[-1] = c1
    if attr != "same" or base.get("extra_abs"):
        # a perturbed partner is built without normalisation so that nothing else changes (and normalising would remove an
        # ill-formed decoration on one side only)
        if other.get("post") == "normalise":
            other["post"] = None
        if base.get("post") == "normalise":
            base["post"] = None
    return {"base": base, "other": other, "attr": attr, "how": how}


def strategy(params, shard, nshards):
    return _case()


def _projection(spec, flags):
    """reference model of what equals may look at under the given ignore flags (multiset)"""
    items = []
    for ch, p, on, off, v in spec["notes"]:
        items.append(("n", None if "ch" in flags else ch, p, on, off - on, None if "vel" in flags else v))
    for m in spec["meta"]:
        if m[0] == "ts" and "ts" not in flags:
            items.append(("ts", m[1], m[2], m[3]))
        elif m[0] == "ks" and "ks" not in flags:
            items.append(("ks", m[1], m[2]))
    return sorted(items, key=repr)


def _eq(a, b, flags):
    return a.equals(b, ignore_channel="ch" in flags, ignore_time_signature="ts" in flags,
                    ignore_key_signature="ks" in flags, ignore_velocity="vel" in flags)


def check(case):
    out = Outcome()
    attr = case["attr"]
    out.label(attr)
    if case["base"].get("extra_abs"):
        out.label("re-struck-decoration")
    a = build.sequence(case["base"])
    if attr == "same" and case["how"] == "self":
        b = a
    elif attr == "same" and case["how"] == "copy":
        b = a.copy()
    else:
        b = build.sequence(case["other"])
    if attr == "same" and case["how"] == "edited":
        e = case["other"]["edit"]
        try:
            a.equals(a)
            a.equals(b)
            for m in a.messages_abs():
                if m.note == e["old"] and m.channel == e["channel"] and m.time in (e["on"], e["off"]):
                    m.note = e["new"]
            from pbt import oracles as O
            if O.notes(O.seq_events(a)[0])[0] != O.notes(O.seq_events(build.sequence(case["other"]))[0])[0]:
                out.inconclusive = "in-place-edit-did-not-produce-the-partner"
                return out
        except Exception as ex:
            out.inconclusive = f"in-place-edit-raised:{type(ex).__name__}"
            return out
        out.label("edited-in-place")
        out.nontrivial = True
    out.nontrivial = attr != "same" or case["how"] == "edited"
    owner = OWNER.get(attr)
    for r in range(5):
        for flags in itertools.combinations(FLAGS, r):
            try:
                ab = _eq(a, b, flags)
                ba = _eq(b, a, flags)
                aa = _eq(a, a, flags)
            except Exception as e:
                out.fail("equals-raises", f"{attr} flags={flags}: {type(e).__name__}: {e}")
                return out
            if aa is not True:
                out.fail("not-reflexive", f"flags={flags}: a.equals(a) = {aa!r}")
                return out
            if ab is not ba:
                out.fail("not-symmetric", f"{attr} flags={flags}: a.equals(b)={ab!r} b.equals(a)={ba!r}")
                return out
            if attr == "channel1" and "ch" in flags:
                continue
            want = True if attr == "same" else _projection(case["base"], flags) == _projection(case["other"], flags)
            if attr != "same" and want is not (owner is not None and owner in flags):
                raise AssertionError(f"generator/oracle disagreement for {attr} {flags}")
            if ab is not want:
                kind = "same-unequal" if attr == "same" else ("flag-does-not-relax:" + attr if want else "difference-missed:" + attr)
                out.fail(kind, f"{attr} ({case['how']}) flags={flags}: equals={ab!r}, expected {want}; "
                               f"base={case['base']['notes']}/{case['base']['meta']} other={case['other']['notes']}/{case['other']['meta']}")
                return out
    try:
        e1, e2 = (a == b), (b == a)
    except Exception as e:
        out.fail("eq-operator-raises", f"{type(e).__name__}: {e}")
        return out
    if e1 is not (attr == "same") or e2 is not (attr == "same"):
        out.fail("eq-operator", f"{attr}: a==b is {e1!r}, b==a is {e2!r}")
    return out
