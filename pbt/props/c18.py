"""C18 — pad, cut-off, integer scaling and channel assignment do exactly what they say."""
from hypothesis import strategies as st

from pbt import build, gens, oracles as O
from pbt.common import build_input
from pbt.runner import Outcome

ID = "C18"
MIN_NONTRIVIAL = 0.4
RULE = ("Hypothesis: well-formed sequences on 2 channels with time/key signatures and control/program changes as noise, any "
        "construction route / freshness state; op in {pad(n), cutoff(m, r<=m), scale(k in 1..8, quantise_afterwards=False), "
        "set_channel(c in 0..15)} with n drawn around the duration (0, d-1, d, d+1, large) and m around the note lengths "
        "(a note of length exactly m is forced in half of the cutoff cases); a fifth of the pad/cutoff/set_channel inputs is a sequence "
        "concatenated with itself (one message object at two positions). Oracle: exact model on raw events of both views. "
        "Non-trivial: n in {d-1,d,d+1}, a note of length m or m+1, k >= 2, or a multi-channel input for set_channel. "
        "Distinct by case digest.")
RULE = RULE + " Rounds e-g: self-concatenated inputs (pad, cutoff, set_channel), scale with the optional meta_sequence argument, channel pools, silent notes, SEQUENCE_CONTROL noise, far tick shifts."
RULE = RULE + " Round i: one controller written twice on a tick; order-aware comparison of control-change values."
RULE = RULE + " Round j: untied insertion order for cut-off."
ASSUMPTIONS = ["cutoff: total duration is not part of the statement and is not compared",
               "set_channel is compared at event level (note pairing may change when two channels shared a pitch)"]
TIERS = {"quick": dict(shards=8, examples=1500, alt_ppqn=[480, 7], alt_shards=3),
         "thorough": dict(fuzz_runs=20000, fuzz_shards=4, shards=16, examples=15000, alt_ppqn=[480, 96, 10, 1000], alt_shards=2)}


@st.composite
def _case(draw):
    spec = draw(gens.seqspec(meta=gens.meta_events(max_tick=150, max_events=3, with_noise=True),
                             channels="pool", pitches=draw(st.sampled_from([(60, 61, 62), (60, 61, 62), (21, 108), (0, 127)])), max_notes=7,
                             max_len=40))
    notes = spec["notes"]
    op = draw(st.sampled_from(["pad", "cutoff", "scale", "set_channel"]))
    if draw(st.integers(0, 3 if op != "pad" else 1)) == 0:
        # long trailing rest: total durations up to 20000 ticks (float round trips of the duration are duration-specific)
        spec["pad"] = draw(st.integers(0, 20000))
    sh = gens.far_shift(draw, spec) if op != "scale" else 0
    d = max([n[3] + sh for n in notes] + [m[1] + sh for m in spec["meta"]] + [spec["pad"] or 0])
    if op != "scale" and draw(st.integers(0, 4)) == 0:
        # a sequence made of the same material twice (concatenate shares the message objects: one object, two positions).
        # Not for scale: multiplying the waits in place reaches a shared WAIT object twice, a consequence of the sharing that
        # test_concatenate pins (DESIGN 11.6)
        spec["double"] = draw(st.sampled_from(["self", "fresh"]))
        d *= 2
    if op == "cutoff" and draw(st.integers(0, 3)) == 0:
        # cut-off works on the absolute view: it must not depend on the order in which same-tick messages were inserted
        spec["route"], spec["perm"], spec["post"], spec["untied"] = "abs_ins", [0], None, True
        spec.pop("split_waits", None)
        spec.pop("double", None)
    case = {"seq": spec, "op": op}
    if op == "pad":
        case["n"] = draw(st.one_of(st.sampled_from([0, max(0, d - 1), d, d + 1, d + 17, 3 * d + 5]), st.integers(0, 400)))
    elif op == "cutoff":
        lens = sorted({n[3] - n[2] for n in notes}) or [5]
        m = draw(st.one_of(st.sampled_from(lens), st.sampled_from(lens).map(lambda x: max(1, x - 1)), st.integers(1, 45)))
        case["m"] = m
        case["r"] = draw(st.one_of(st.just(m), st.just(1), st.integers(1, m)))
    elif op == "scale":
        case["k"] = draw(st.integers(1, 8))
        # the optional meta_sequence argument (documented for factors below 1; it must not change integer scaling)
        case["meta_seq"] = draw(st.sampled_from([None, None, "self", "other"]))
        if case["meta_seq"] == "other":
            case["other"] = {"notes": [], "meta": [["ts", 0, draw(st.integers(2, 7)), draw(st.sampled_from([4, 8]))]], "route": "abs_sorted",
                             "pad": draw(st.integers(0, 300)), "post": None}
    else:
        case["c"] = draw(st.integers(0, 15))
    return case


def strategy(params, shard, nshards):
    return _case()


def _read_views(out, seq):
    try:
        rep = build.replica(seq)
        r = O.rel_events(rep.rel)
        a = O.abs_events(rep.abs)
    except O.Malformed as e:
        out.fail("malformed-output", str(e))
        return None
    except Exception as e:
        out.fail("unreadable-after-op", f"{type(e).__name__}: {e}")
        return None
    if O.canon(r) != O.canon(a):
        out.fail("views-disagree", f"rel {O.canon(r)} abs {O.canon(a)}")
        return None
    return r


def _cc_order(events, tick=lambda t: t, channel=lambda c: c):
    """values of the control changes per (tick, channel, controller) in list order: for one controller on one tick the later
    message is the one in force"""
    d = {}
    for e in events:
        if e[1] == O.CC:
            d.setdefault((tick(e[0]), channel(e[2]), e[8]), []).append(e[4])
    return {k: v for k, v in d.items() if len(v) > 1}


def check(case):
    out = Outcome()
    op = case["op"]
    out.label(op)
    if case["seq"].get("double"):
        out.label("doubled-input")
    built = build_input(out, case["seq"])
    if built is None:
        return out
    seq, ev0, d0, notes0 = built
    try:
        if op == "pad":
            seq.pad(case["n"])
        elif op == "cutoff":
            seq.cutoff(case["m"], case["r"])
        elif op == "scale":
            if case.get("meta_seq"):
                out.label("scale-with-meta-sequence")
                seq.scale(case["k"], meta_sequence=seq if case["meta_seq"] == "self" else build.sequence(case["other"]),
                          quantise_afterwards=False)
            else:
                seq.scale(case["k"], quantise_afterwards=False)
        else:
            seq.set_channel(case["c"])
    except Exception as e:
        out.fail(f"{op}-raises", f"{type(e).__name__}: {e}")
        return out
    res = _read_views(out, seq)
    if res is None:
        return out
    ev1, d1 = res
    # order of same-tick control changes of one controller (read from the relative list and, on a replica, the absolute list)
    k_ = case.get("k", 1) if op == "scale" else 1
    want_cc = _cc_order(ev0, tick=lambda t: t * k_, channel=(lambda c: case["c"]) if op == "set_channel" else (lambda c: c))
    if want_cc and not (op == "set_channel" and len({e[2] for e in ev0 if e[1] == O.CC}) > 1):
        out.label("repeated-controller-on-a-tick")
        try:
            got_abs = _cc_order(O.abs_events(build.replica(seq).abs)[0])
        except Exception as e:
            got_abs = f"{type(e).__name__}: {e}"
        if _cc_order(ev1) != want_cc or got_abs != want_cc:
            out.fail("control-change-order", f"{op}: per (tick, channel, controller) want {want_cc}, relative list {_cc_order(ev1)}, absolute list {got_abs}")
    c0 = O.canon((ev0, d0))[0]
    c1 = O.canon((ev1, d1))[0]
    if op == "pad":
        n = case["n"]
        out.nontrivial = abs(n - d0) <= 1
        if c1 != c0:
            out.fail("pad-events-changed", f"pad({n}): {c0} -> {c1}")
        if d1 != max(d0, n):
            out.fail("pad-duration", f"pad({n}) on duration {d0} gave {d1}")
    elif op == "cutoff":
        m, r = case["m"], case["r"]
        lens = [x[3] - x[2] for x in notes0]
        out.nontrivial = any(l in (m, m + 1) for l in lens)
        if any(l == m for l in lens):
            out.label("note-of-length-m")
        want = sorted((ch, p, on, on + r if off - on > m else off, v) for ch, p, on, off, v in notes0)
        got, an1 = O.notes(ev1)
        if sorted(got) != want or an1:
            out.fail("cutoff-notes", f"cutoff({m},{r}): want {want} got {sorted(got)} anomalies {an1}")
        if O.others(ev1) != O.others(ev0):
            out.fail("cutoff-non-note-events", f"{O.others(ev0)} -> {O.others(ev1)}")
    elif op == "scale":
        k = case["k"]
        out.nontrivial = k >= 2
        want = sorted(((e[0] * k,) + tuple(e[1:]) for e in ev0), key=O._sortkey)
        if c1 != want:
            out.fail("scale-events", f"scale({k}): want {want} got {c1}")
        if d1 != d0 * k:
            out.fail("scale-duration", f"scale({k}) on duration {d0} gave {d1}")
    else:
        c = case["c"]
        out.nontrivial = len({e[2] for e in ev0}) >= 2 or any(e[1] not in (O.NOTE_ON, O.NOTE_OFF) for e in ev0)
        want = sorted(((e[0], e[1], c) + tuple(e[3:]) for e in ev0), key=O._sortkey)
        if c1 != want:
            out.fail("set-channel-events", f"set_channel({c}): want {want} got {c1}")
        if d1 != d0:
            out.fail("set-channel-duration", f"{d0} -> {d1}")
    return out
