"""C19 — token annotations (get_info) agree with the detokenised timeline."""
import math
from collections import Counter

from hypothesis import strategies as st

from pbt import oracles as O, tok as T
from pbt.common import build_input
from pbt.runner import Outcome

ID = "C19"
MIN_NONTRIVIAL = 0.4
RULE = ("Hypothesis: (a) arbitrary streams of 0-60 vocabulary tokens drawn class-weighted (note tokens, rests, bar, signature "
        "tokens incl. mid-bar, unfused trk/val/vel tokens, pad/sta/sto) for every flag combination and small configurations; "
        "(b) streams produced by tokenise from the C01 piece generator; both with flag_impute_values on and off. Oracle: every "
        "annotation list has one entry per token; positions are 0,1,2,...; for each note token at index i the onset is "
        "recovered black-box as the single new element of note_ons(detokenise(stream[:i+1])) - note_ons(detokenise(stream[:i])) "
        "(multisets of (track, pitch, tick) from raw absolute messages) and must equal info_time[i]; info_pitch[i] is its pitch "
        "and info_circle_of_fifths[i] the fifths position of pitch % 12 from an independent table ((7*pc) mod 12 folded into "
        "-5..6). For (b) additionally info_time_bar[i] = onset - start of its grid bar and info_time never decreases. "
        "Non-trivial: the stream holds a note token after a bar or signature token. Distinct by case digest.")
RULE = RULE + " Round f: tokeniser objects that annotated and detokenised another stream before."
RULE = RULE + " Round h: pitch ranges starting at 66..69."
ASSUMPTIONS = ["annotations of non-note tokens (nan or imputed values) are not part of the statement beyond their presence"]
TIERS = {"quick": dict(shards=8, examples=1200), "thorough": dict(fuzz_runs=20000, fuzz_shards=4, shards=16, examples=12000)}


def _fifths(pc):
    p = (7 * pc) % 12
    return p if p <= 6 else p - 12


def _classes(tokens):
    cls = {"note": [], "rst": [], "bar": [], "tsg": [], "run": [], "ctl": []}
    for t in tokens:
        if "pit_" in t:
            cls["note"].append(t)
        elif t.startswith("rst_"):
            cls["rst"].append(t)
        elif t == "bar":
            cls["bar"].append(t)
        elif t.startswith("tsg_"):
            cls["tsg"].append(t)
        elif t[:4] in ("trk_", "val_", "vel_"):
            cls["run"].append(t)
        else:
            cls["ctl"].append(t)
    return {k: v for k, v in cls.items() if v}


@st.composite
def _arbitrary(draw, shard, nshards):
    cfg = draw(T.config(shard=shard, nshards=nshards, max_tracks=3))
    cfg["velocity_bins"] = draw(st.integers(1, 6))
    cfg["ppqn"] = draw(st.sampled_from([None, None, 24, 12, 48, 96, 480, 10, 7]))
    lo = cfg["pitch_range"][0]
    if draw(st.integers(0, 3)) == 0:
        lo = draw(st.sampled_from([69, 68, 67, 66, 0, 127, 57, 81]))       # around the imputation default (A4 = 69) and the range ends
    cfg["pitch_range"] = [lo, min(127, lo + draw(st.integers(0, 3)))]
    tok = T.make_tokeniser(cfg)
    cls = _classes(list(tok.dictionary))
    weights = ["note"] * 5 + ["rst"] * 4 + ["bar"] * 2 + ["tsg"] * 2 + ["run"] * 3 + ["ctl"]
    weights = [w for w in weights if w in cls]
    n = draw(st.one_of(st.integers(0, 60), st.integers(15, 60)))
    # the generator keeps a rough picture of the bar it is in, only to be able to aim: 'fill' emits rests that sum
    # exactly to what is left of the bar (with or without a bar token after them) -- a shape random drawing never hits
    ppqn = cfg.get("ppqn") or 24
    rests = sorted((int(t[4:]) for t in cls.get("rst", [])), reverse=True)
    cap = remaining = 4 * ppqn
    in_bar = 0
    stream = []
    while len(stream) < n:
        kind = draw(st.sampled_from(weights + ["fill", "fill"]))
        if kind == "fill":
            left, chosen = remaining, []
            for r in rests:
                while 0 < r <= left and len(chosen) < 12:
                    chosen.append(r)
                    left -= r
            if left == 0 and chosen:
                stream.extend(f"rst_{r:02}" for r in chosen)
                in_bar += remaining
                remaining = 0
                follow = draw(st.sampled_from(["tsg", "note", "bar", "tsg", "none"]))
                if follow != "none" and follow in cls:
                    kind = follow
                else:
                    continue
            else:
                continue
        t = draw(st.sampled_from(cls[kind]))
        stream.append(t)
        if kind == "rst":
            remaining -= int(t[4:])
            in_bar += int(t[4:])
        elif kind == "bar":
            remaining, in_bar = cap, 0
        elif kind == "tsg" and in_bar == 0:
            cap = remaining = 4 * ppqn * int(t[4:6]) // 8
    return {"kind": "arbitrary", "cfg": cfg, "stream": stream, "impute": draw(st.booleans()), "warm": draw(st.integers(0, 2)) == 0}


@st.composite
def _tokenised(draw, shard, nshards):
    cfg = draw(T.config(shard=shard, nshards=nshards, max_tracks=3))
    return {"kind": "tokenised", "cfg": cfg, "piece": draw(T.piece(cfg, max_bars=4, max_notes=7, noise=False)),
            "impute": draw(st.booleans()), "warm": draw(st.integers(0, 2)) == 0}


def strategy(params, shard, nshards):
    return st.one_of(_arbitrary(shard, nshards), _tokenised(shard, nshards))


def _note_ons(tok, stream):
    c = Counter()
    for i, s in enumerate(tok.detokenise(stream)):
        for m in s.abs._messages:
            if O._kind(m) == O.NOTE_ON:
                c[(i, m.note, O.ticks(m.time))] += 1
    return c


def check(case):
    out = Outcome()
    cfg = case["cfg"]
    out.label(case["kind"], "impute" if case["impute"] else "no-impute")
    try:
        tok = T.make_tokeniser(cfg)
    except Exception as e:
        out.inconclusive = f"constructor-raised:{type(e).__name__}"
        return out
    bars = None
    if case["kind"] == "arbitrary":
        stream = list(case["stream"])
        if any(t not in tok.dictionary for t in stream):
            out.inconclusive = "stream-not-in-this-vocabulary"
            return out
    else:
        seqs = []
        for spec in case["piece"]["tracks"]:
            built = build_input(out, spec)
            if built is None:
                return out
            seqs.append(built[0])
        try:
            stream = tok.tokenise(seqs)
        except Exception as e:
            out.inconclusive = f"tokenise-raised:{type(e).__name__}"
            return out
        bars = case["piece"]["bars"]
    n = len(stream)
    if case.get("warm"):
        # the tokeniser object has annotated and detokenised another stream before (the same tokens backwards)
        out.label("reused-tokeniser")
        for f in (lambda: tok.get_info(list(stream[::-1]), flag_impute_values=not case["impute"]),
                  lambda: tok.detokenise(list(stream[::-1]))):
            try:
                f()
            except Exception:
                pass
    try:
        info = tok.get_info(list(stream), flag_impute_values=case["impute"])
    except Exception as e:
        out.fail(f"get-info-raises:{type(e).__name__}", f"{e}; stream {stream[:40]}")
        return out
    keys = ["info_position", "info_time", "info_time_bar", "info_pitch", "info_circle_of_fifths"]
    for k in keys:
        if k not in info or len(info[k]) != n:
            out.fail("annotation-length", f"{k}: {len(info.get(k, []))} entries for {n} tokens")
            return out
    if list(info["info_position"]) != list(range(n)):
        out.fail("positions", f"{info['info_position'][:20]}")
        return out
    seen_structure = False
    prev = Counter()
    last_time = None
    for i, t in enumerate(stream):
        is_note = "pit_" in t
        if is_note:
            try:
                cur = _note_ons(tok, stream[:i + 1])
            except O.Malformed as e:
                out.fail("malformed-output", str(e))
                return out
            except Exception as e:
                out.inconclusive = f"detokenise-raised:{type(e).__name__}"
                return out
            new = cur - prev
            prev = cur
            if sum(new.values()) != 1:
                out.inconclusive = "note-token-did-not-add-exactly-one-note"
                return out
            (track, pitch, onset), = new.keys()
            if seen_structure:
                out.nontrivial = True
            if info["info_time"][i] != onset:
                out.fail("time-annotation", f"token {i} {t!r}: info_time {info['info_time'][i]} but detokenise places the note at {onset}; stream {stream[:i + 1]}")
                return out
            if info["info_pitch"][i] != pitch:
                out.fail("pitch-annotation", f"token {i} {t!r}: info_pitch {info['info_pitch'][i]}, pitch {pitch}")
                return out
            if info["info_circle_of_fifths"][i] != _fifths(pitch % 12):
                out.fail("fifths-annotation", f"token {i} {t!r}: {info['info_circle_of_fifths'][i]} for pitch {pitch}, table says {_fifths(pitch % 12)}")
                return out
            if bars is not None:
                start = max([b[0] for b in bars if b[0] <= onset], default=0)
                # beyond the planned bars the grid continues with the last signature
                lastb = bars[-1]
                if onset >= lastb[0] + lastb[1]:
                    start = lastb[0] + ((onset - lastb[0]) // lastb[1]) * lastb[1]
                if info["info_time_bar"][i] != onset - start:
                    out.fail("in-bar-time-annotation", f"token {i} {t!r}: info_time_bar {info['info_time_bar'][i]}, onset {onset}, bar start {start}")
                    return out
        elif t == "bar" or t.startswith("tsg_"):
            seen_structure = True
        if bars is not None:
            ti = info["info_time"][i]
            if last_time is not None and ti < last_time:
                out.fail("time-decreases", f"token {i}: {last_time} -> {ti}")
                return out
            last_time = ti
        for k in ("info_time", "info_time_bar"):
            v = info[k][i]
            if isinstance(v, float) and math.isnan(v):
                out.fail("nan-time", f"{k}[{i}]")
                return out
    return out
