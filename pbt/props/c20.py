"""C20 — key and circle-of-fifths tables are algebraically consistent.

Finite domain, enumerated completely (15 keys x intervals -48..48, interval pairs -13..13, 128 x 128 pitch pairs,
128 pitches x distances -12..12), plus Hypothesis integers of arbitrary magnitude for the interval.
"""
import numbers

import numpy
from hypothesis import strategies as st

from pbt.runner import Outcome
from pbt.sut import Key, CircleOfFifths, MusicMapping, Note

ID = "C20"
EXHAUSTIVE = True
MIN_NONTRIVIAL = 0.5
RULE = ("exhaustive enumeration of (key, interval in -48..48), (key, a, b in -13..13) for additivity, all 128x128 pitch "
        "pairs in blocks of one 'from' pitch (as Python ints and as numpy uint8/int8/int16/int64 scalars), (pitch, distance in -12..12); plus Hypothesis-drawn intervals of "
        "arbitrary magnitude. Oracle: tonic/scale read from KeyNoteMapping shifted mod 12; major-scale shape; "
        "distance in [-5,6], congruent to position difference, from_distance lands on target; one step = a fifth. "
        "Non-trivial = every case except the identity interval on C major; distinct by case digest.")
ASSUMPTIONS = ["KeyNoteMapping's first element of each scale list is the tonic (checked: it must span a major scale)",
               "enharmonic spelling of the returned key is free (compared as tonic pitch class + pitch-class set)"]
TIERS = {"quick": dict(shards=2, examples=300, enum_shards=6),
         "thorough": dict(shards=8, examples=4000, enum_shards=8)}

MAJOR = (0, 2, 4, 5, 7, 9, 11)
KEYS = [k.value for k in Key]


def _tonic_scale(key):
    notes = MusicMapping.KeyNoteMapping[key][0]
    return notes[0].value, frozenset(n.value for n in notes)


def enumerate_cases(params):
    for k in KEYS:
        for n in range(-48, 49):
            yield {"kind": "transpose", "key": k, "n": n}
    for k in KEYS:
        for a in range(-13, 14):
            yield {"kind": "additive", "key": k, "a": a, "bs": list(range(-13, 14))}
    for k in KEYS:
        yield {"kind": "scale", "key": k}
    for a in range(128):
        yield {"kind": "cof", "a": a, "bs": list(range(128))}
    for a in range(128):
        for np_type in ("uint8", "int8", "int16", "int64"):
            yield {"kind": "cof", "a": a, "bs": list(range(128)), "np": np_type}
    for a in range(128):
        yield {"kind": "from_distance", "a": a, "ds": list(range(-12, 13))}


def strategy(params, shard, nshards):
    big = st.one_of(st.integers(-10 ** 6, 10 ** 6), st.integers(-10 ** 30, 10 ** 30),
                    st.integers(-5000, 5000).map(lambda j: 12 * j))
    return st.one_of(
        st.builds(lambda k, n: {"kind": "transpose", "key": k, "n": n}, st.sampled_from(KEYS), big),
        st.builds(lambda k, a, b: {"kind": "additive", "key": k, "a": a, "bs": [b]}, st.sampled_from(KEYS), big, big),
        st.builds(lambda a, b: {"kind": "cof", "a": a, "bs": [b]}, st.integers(0, 127), st.integers(0, 127)),
        st.builds(lambda a, b: {"kind": "cof", "a": a, "bs": [b, b % 128, (128 + b) % 128, 127, 0]},
                  st.integers(-300, 500), st.one_of(st.integers(-130, -1), st.integers(-300, 500))),
    )


def _transposed_ok(out, tag, key, n, res):
    if not isinstance(res, Key):
        out.fail(f"{tag}-not-a-key", f"transpose_key({key}, {n}) = {res!r}")
        return False
    t0, s0 = _tonic_scale(key)
    t1, s1 = _tonic_scale(res)
    if t1 != (t0 + n) % 12:
        out.fail(f"{tag}-tonic", f"transpose_key({key},{n})={res}: tonic {t1} != {(t0 + n) % 12}")
        return False
    if s1 != frozenset((x + n) % 12 for x in s0):
        out.fail(f"{tag}-scale", f"transpose_key({key},{n})={res}: scale mismatch")
        return False
    return True


def check(case):
    out = Outcome()
    kind = case["kind"]
    out.label(kind)
    out.nontrivial = True
    if kind == "transpose":
        key, n = Key(case["key"]), case["n"]
        if key == Key.C and n == 0:
            out.nontrivial = False
        try:
            res = Key.transpose_key(key, n)
        except Exception as e:
            out.fail("transpose-raises", f"transpose_key({key},{n}) raised {type(e).__name__}: {e}")
            return out
        if _transposed_ok(out, "transpose", key, n, res) and n % 12 == 0:
            out.label("multiple-of-12")
    elif kind == "additive":
        key, a = Key(case["key"]), case["a"]
        for b in case["bs"]:
            try:
                step = Key.transpose_key(key, a)
                two = Key.transpose_key(step, b) if isinstance(step, Key) else None
                one = Key.transpose_key(key, a + b)
            except Exception as e:
                out.fail("additive-raises", f"{key},{a},{b}: {type(e).__name__}: {e}")
                return out
            if not isinstance(two, Key) or not isinstance(one, Key):
                out.fail("additive-not-a-key", f"t(t({key},{a}),{b})={two!r} t({key},{a + b})={one!r}")
                return out
            if _tonic_scale(two) != _tonic_scale(one):
                out.fail("additive", f"t(t({key},{a}),{b})={two} but t({key},{a + b})={one}")
                return out
    elif kind == "scale":
        key = Key(case["key"])
        tonic, scale = _tonic_scale(key)
        if scale != frozenset((tonic + d) % 12 for d in MAJOR) or len(MusicMapping.KeyNoteMapping[key][0]) != 7:
            out.fail("scale-not-major", f"{key}: tonic {tonic} scale {sorted(scale)}")
    elif kind == "cof":
        a = case["a"]
        cast = getattr(numpy, case["np"]) if case.get("np") else int
        if case.get("np"):
            out.label("numpy-" + case["np"])
        for b in case["bs"]:
            a, b = cast(case["a"]), cast(b)
            try:
                d = CircleOfFifths.get_distance(a, b)
                pa, pb = CircleOfFifths.get_position(a), CircleOfFifths.get_position(b)
                land = CircleOfFifths.from_distance(a, d)
            except Exception as e:
                out.fail("cof-raises", f"a={a} b={b}: {type(e).__name__}: {e}")
                return out
            if isinstance(d, bool) or not isinstance(d, numbers.Integral) or not -5 <= d <= 6:
                out.fail("cof-range", f"distance({a},{b})={d!r}")
                return out
            if (d - (pb - pa)) % 12 != 0:
                out.fail("cof-congruence", f"distance({a},{b})={d}, positions {pa},{pb}")
                return out
            if land != b % 12:
                out.fail("cof-landing", f"from_distance({a}, distance({a},{b})={d}) = {land} != {b % 12}")
                return out
    elif kind == "from_distance":
        a = case["a"]
        for d in case["ds"]:
            try:
                land = CircleOfFifths.from_distance(a, d)
            except Exception as e:
                out.fail("from-distance-raises", f"a={a} d={d}: {type(e).__name__}: {e}")
                return out
            if land != (a + 7 * d) % 12:
                out.fail("from-distance-fifths", f"from_distance({a},{d})={land!r}, {d} fifths from {a % 12} is {(a + 7 * d) % 12}")
                return out
    return out
