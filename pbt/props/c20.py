"""C20 — key and circle-of-fifths tables are algebraically consistent.

Finite domain, enumerated completely (15 keys x intervals -48..48, interval pairs -13..13, 128 x 128 pitch pairs,
128 pitches x distances -12..12), plus Hypothesis integers of arbitrary magnitude for the interval.
"""
import numbers

import numpy
from hypothesis import strategies as st

from pbt.runner import Outcome
from pbt.sut import Key, CircleOfFifths, MusicMapping, Note

ID = "C20"
EXHAUSTIVE = True
MIN_NONTRIVIAL = 0.5
RULE = ("exhaustive enumeration of (key, interval in -48..48), (key, a, b in -13..13) for additivity, all 128x128 pitch "
        "pairs in blocks of one 'from' pitch (as Python ints and as numpy uint8/int8/int16/int64 scalars), (pitch, distance in -12..12); plus Hypothesis-drawn intervals of "
        "arbitrary magnitude. Oracle: tonic/scale read from KeyNoteMapping shifted mod 12; major-scale shape; "
        "distance in [-5,6], congruent to position difference, from_distance lands on target; one step = a fifth. "
        "Non-trivial = every case except the identity interval on C major; distinct by case digest.")
RULE = RULE + " Rounds e-g: wide and negative integers before ordinary pitches, table integrity after ordinary library use (key guess, transposition, MIDI key loading, get_info, equals / merge of differently keyed sequences)."
RULE = RULE + " Round h: intervals beyond the float range."
RULE = RULE + " Round i: keyword calls."
RULE = RULE + " Round j: numpy int64 intervals."
RULE = RULE + " Round k: MIDI export of key signatures in the workout."
ASSUMPTIONS = ["KeyNoteMapping's first element of each scale list is the tonic (checked: it must span a major scale)",
               "enharmonic spelling of the returned key is free (compared as tonic pitch class + pitch-class set)"]
TIERS = {"quick": dict(shards=2, examples=300, enum_shards=6),
         "thorough": dict(shards=8, examples=4000, enum_shards=8)}

MAJOR = (0, 2, 4, 5, 7, 9, 11)
KEYS = [k.value for k in Key]


def _tonic_scale(key):
    notes = MusicMapping.KeyNoteMapping[key][0]
    return notes[0].value, frozenset(n.value for n in notes)


def enumerate_cases(params):
    for k in KEYS:
        for n in range(-48, 49):
            yield {"kind": "transpose", "key": k, "n": n}
    for k in KEYS:
        for n in range(-25, 26):
            yield {"kind": "transpose", "key": k, "n": n, "np": "int64"}
    for k in KEYS:
        for a in range(-13, 14):
            yield {"kind": "additive", "key": k, "a": a, "bs": list(range(-13, 14))}
    for k in KEYS:
        yield {"kind": "scale", "key": k}
    for a in range(128):
        yield {"kind": "cof", "a": a, "bs": list(range(128))}
    for a in range(128):
        for np_type in ("uint8", "int8", "int16", "int64"):
            yield {"kind": "cof", "a": a, "bs": list(range(128)), "np": np_type}
    for a in range(128):
        yield {"kind": "from_distance", "a": a, "ds": list(range(-12, 13))}


def strategy(params, shard, nshards):
    big = st.one_of(st.integers(-10 ** 6, 10 ** 6), st.integers(-10 ** 30, 10 ** 30),
                    # beyond the range of a float (an exact integer is still "any integer")
                    st.integers(-50, 50).map(lambda j: 2 ** 1030 * (1 if j >= 0 else -1) + j), st.integers(-10 ** 400, 10 ** 400),
                    st.integers(-5000, 5000).map(lambda j: 12 * j))
    return st.one_of(
        st.builds(lambda k, n: {"kind": "transpose", "key": k, "n": n}, st.sampled_from(KEYS), big),
        st.builds(lambda k, a, b: {"kind": "additive", "key": k, "a": a, "bs": [b]}, st.sampled_from(KEYS), big, big),
        st.builds(lambda a, b: {"kind": "cof", "a": a, "bs": [b]}, st.integers(0, 127), st.integers(0, 127)),
        st.builds(lambda a, b: {"kind": "cof", "a": a, "bs": [b, b % 128, (128 + b) % 128, 127, 0]},
                  st.integers(-300, 500), st.one_of(st.integers(-130, -1), st.integers(-300, 500))),
        # the tables are shared module-level objects: they must be intact after the rest of the library has used them
        st.builds(lambda w, pitches, n: {"kind": "after_use", "workout": w, "pitches": pitches, "n": n},
                  st.lists(st.sampled_from(["guess", "guess_keyed", "transpose", "bar_transpose", "load_key", "get_info", "equals_keys", "merge_keys", "export_keys"]), min_size=1, max_size=4),
                  st.lists(st.integers(21, 108), min_size=0, max_size=6), st.integers(-30, 30)),
    )


def _workout(out, case):
    """ordinary library use that reads the shared tables (failures here are other properties' business: inconclusive)"""
    from pbt import build, tok as T
    from pbt.sut import Bar
    notes, t = [], 0
    for p in case["pitches"]:
        notes.append([0, p, t, t + 12, 80])
        t += 12
    try:
        for w in case["workout"]:
            seq = build.sequence({"notes": notes, "meta": [["ks", 0, "D"]] if w == "guess_keyed" else [], "route": "rel", "pad": 96})
            if w in ("guess", "guess_keyed"):
                seq.rel.get_key_signature_guess()
            elif w == "transpose":
                seq.transpose(case["n"])
            elif w == "bar_transpose":
                Bar(seq, 4, 4, Key("Db")).transpose(case["n"])
            elif w == "load_key":
                import mido
                from pbt.sut import MidiFile, Sequence
                mf = mido.MidiFile(ticks_per_beat=24)
                tr = mido.MidiTrack()
                tr.append(mido.MetaMessage("key_signature", key="F#", time=0))
                tr.append(mido.Message("note_on", note=60, velocity=64, time=0))
                tr.append(mido.Message("note_off", note=60, velocity=0, time=24))
                mf.tracks.append(tr)
                m = MidiFile()
                m.parse_mido(mf)
                Sequence.sequences_load(midi_file=m)
            elif w == "export_keys":
                for k_ in ("C#", "Cb", "Gb", "Db", "F#", "B"):
                    s_ = build.sequence({"notes": notes, "meta": [["ks", 0, k_]], "route": "rel", "pad": 96})
                    s_.to_midi_track().to_mido_track()
            elif w in ("equals_keys", "merge_keys"):
                keys = ["Db", "D", "Gb", "F#", "Cb", "B", "C#", "C"]
                k1 = keys[case["n"] % len(keys)]
                k2 = keys[(case["n"] // 3 + 1) % len(keys)]
                a = build.sequence({"notes": notes, "meta": [["ks", 0, k1]], "route": "abs_sorted", "pad": 96})
                b = build.sequence({"notes": notes, "meta": [["ks", 0, k2]], "route": "rel", "pad": 96})
                if w == "equals_keys":
                    a.equals(b), b.equals(a), a == b, a.equals(b, ignore_key_signature=True)
                else:
                    a.merge([b])
                    a.normalise()
            elif w == "get_info":
                tok = T.make_tokeniser({"num_tracks": 1, "pitch_range": [21, 108], "step_sizes": None, "note_values": None,
                                        "velocity_bins": 1, **{f: True for f in T.FLAG_NAMES}})
                tok.get_info(list(tok.dictionary)[:20])
    except Exception as e:
        out.inconclusive = f"workout-raised:{type(e).__name__}"


def _transposed_ok(out, tag, key, n, res):
    if not isinstance(res, Key):
        out.fail(f"{tag}-not-a-key", f"transpose_key({key}, {n}) = {res!r}")
        return False
    t0, s0 = _tonic_scale(key)
    t1, s1 = _tonic_scale(res)
    if t1 != (t0 + n) % 12:
        out.fail(f"{tag}-tonic", f"transpose_key({key},{n})={res}: tonic {t1} != {(t0 + n) % 12}")
        return False
    if s1 != frozenset((x + n) % 12 for x in s0):
        out.fail(f"{tag}-scale", f"transpose_key({key},{n})={res}: scale mismatch")
        return False
    return True


def check(case):
    out = Outcome()
    kind = case["kind"]
    out.label(kind)
    out.nontrivial = True
    if kind == "transpose":
        key, n = Key(case["key"]), case["n"]
        if case.get("np") and -2 ** 62 < n < 2 ** 62:
            n = getattr(numpy, case["np"])(n)       # the interval arrives as a numpy integer scalar (np.arange, rng.integers)
            out.label("numpy-interval")
        if key == Key.C and n == 0:
            out.nontrivial = False
        try:
            res = Key.transpose_key(key, n)
        except Exception as e:
            out.fail("transpose-raises", f"transpose_key({key},{n}) raised {type(e).__name__}: {e}")
            return out
        if _transposed_ok(out, "transpose", key, n, res) and n % 12 == 0:
            out.label("multiple-of-12")
    elif kind == "additive":
        key, a = Key(case["key"]), case["a"]
        for b in case["bs"]:
            try:
                step = Key.transpose_key(key, a)
                two = Key.transpose_key(step, b) if isinstance(step, Key) else None
                one = Key.transpose_key(key, a + b)
            except Exception as e:
                out.fail("additive-raises", f"{key},{a},{b}: {type(e).__name__}: {e}")
                return out
            if not isinstance(two, Key) or not isinstance(one, Key):
                out.fail("additive-not-a-key", f"t(t({key},{a}),{b})={two!r} t({key},{a + b})={one!r}")
                return out
            if _tonic_scale(two) != _tonic_scale(one):
                out.fail("additive", f"t(t({key},{a}),{b})={two} but t({key},{a + b})={one}")
                return out
    elif kind == "scale":
        key = Key(case["key"])
        tonic, scale = _tonic_scale(key)
        if scale != frozenset((tonic + d) % 12 for d in MAJOR) or len(MusicMapping.KeyNoteMapping[key][0]) != 7:
            out.fail("scale-not-major", f"{key}: tonic {tonic} scale {sorted(scale)}")
    elif kind == "cof":
        a = case["a"]
        cast = getattr(numpy, case["np"]) if case.get("np") else int
        if case.get("np"):
            out.label("numpy-" + case["np"])
        for b in case["bs"]:
            a, b = cast(case["a"]), cast(b)
            try:
                d = CircleOfFifths.get_distance(a, b)
                pa, pb = CircleOfFifths.get_position(a), CircleOfFifths.get_position(b)
                land = CircleOfFifths.from_distance(a, d)
                if not case.get("np"):
                    # the documented parameter names, passed by keyword
                    dk = CircleOfFifths.get_distance(from_note_val=a, to_note_val=b)
                    lk = CircleOfFifths.from_distance(base_note_val=a, cof_distance=d)
                    pk = CircleOfFifths.get_position(note_val=a)
                    if (dk, lk, pk) != (d, land, pa):
                        out.fail("keyword-call-differs", f"a={a} b={b}: positional ({d}, {land}, {pa}) vs keyword ({dk}, {lk}, {pk})")
                        return out
            except Exception as e:
                out.fail("cof-raises", f"a={a} b={b}: {type(e).__name__}: {e}")
                return out
            if isinstance(d, bool) or not isinstance(d, numbers.Integral) or not -5 <= d <= 6:
                out.fail("cof-range", f"distance({a},{b})={d!r}")
                return out
            if (d - (pb - pa)) % 12 != 0:
                out.fail("cof-congruence", f"distance({a},{b})={d}, positions {pa},{pb}")
                return out
            if land != b % 12:
                out.fail("cof-landing", f"from_distance({a}, distance({a},{b})={d}) = {land} != {b % 12}")
                return out
    elif kind == "after_use":
        _workout(out, case)
        if out.inconclusive:
            return out
        for k in KEYS:
            key = Key(k)
            try:
                tonic, scale = _tonic_scale(key)
            except Exception as e:
                out.fail("table-entry-missing", f"{key} after {case['workout']}: {type(e).__name__}: {e}")
                return out
            if scale != frozenset((tonic + d) % 12 for d in MAJOR) or len(MusicMapping.KeyNoteMapping[key][0]) != 7:
                out.fail("scale-not-major", f"{key} after {case['workout']}: tonic {tonic} scale {sorted(scale)}")
                return out
            for n in range(-13, 14):
                try:
                    res = Key.transpose_key(key, n)
                except Exception as e:
                    out.fail("transpose-raises", f"transpose_key({key},{n}) after {case['workout']} raised {type(e).__name__}: {e}")
                    return out
                try:
                    ok = _transposed_ok(out, "transpose", key, n, res)
                except Exception as e:
                    out.fail("table-entry-missing", f"transpose_key({key},{n})={res} after {case['workout']}: {type(e).__name__}: {e}")
                    return out
                if not ok:
                    return out
        if len(MusicMapping.KeyNoteMapping) != 15 or sorted(k.value for k in MusicMapping.KeyNoteMapping) != sorted(KEYS):
            out.fail("table-keys-changed", f"KeyNoteMapping holds {[k.value for k in MusicMapping.KeyNoteMapping]} after {case['workout']}")
        pos = [CircleOfFifths.get_position(p) for p in range(12)]
        if sorted(x % 12 for x in pos) != list(range(12)):
            out.fail("cof-positions-not-a-permutation", f"{pos} after {case['workout']}")
    elif kind == "from_distance":
        a = case["a"]
        for d in case["ds"]:
            try:
                land = CircleOfFifths.from_distance(a, d)
            except Exception as e:
                out.fail("from-distance-raises", f"a={a} d={d}: {type(e).__name__}: {e}")
                return out
            if land != (a + 7 * d) % 12:
                out.fail("from-distance-fifths", f"from_distance({a},{d})={land!r}, {d} fifths from {a % 12} is {(a + 7 * d) % 12}")
                return out
    return out
