"""Shard orchestration, seeding, evidence, known findings and exit codes for every check.

A property module (pbt/props/cNN.py) provides
    ID, RULE (text), TIERS = {"quick": {...}, "thorough": {...}}   (keys: shards, examples, + module specific)
    strategy(params, shard, nshards) -> Hypothesis strategy of plain-data cases          (optional)
    enumerate_cases(params) -> iterable of plain-data cases (a finite space, enumerated completely)   (optional)
    check(case) -> Outcome
    MIN_NONTRIVIAL (fraction, default 0.2), ASSUMPTIONS (list of str), EXHAUSTIVE (bool)
"""
import argparse
import hashlib
import importlib
import json
import multiprocessing
import os
import signal
import sys
import time
import traceback
from collections import Counter

ROOT = os.path.dirname(os.path.dirname(os.path.abspath(__file__)))
# runs against a scratch copy (sensitivity testing with VERIF_REPO) must not overwrite the real evidence
SCRATCH = os.path.realpath(os.environ.get("VERIF_REPO", "/repo")) != "/repo"
EVID_DIR = os.path.join(ROOT, ".cache", "evidence-scratch") if SCRATCH else os.path.join(ROOT, "evidence")
SCRATCH_ALT_OFF = os.environ.get("VERIF_NO_ALT") == "1"


class Outcome:
    """Verdict of one case. violations = [(signature, detail)], signature = root-cause bucket + discriminating
    facts (matched against known_findings.json)."""

    def __init__(self):
        self.violations = []
        self.nontrivial = False
        self.labels = []
        self.inconclusive = None

    def fail(self, signature, detail=""):
        self.violations.append((signature, str(detail)[:2000]))

    def label(self, *names):
        self.labels.extend(names)


class _Violation(Exception):
    pass


class _HarnessAbort(BaseException):
    pass


class _StopShrink(BaseException):
    pass


class _CaseTimeout(BaseException):
    pass


CASE_LIMIT_S = int(os.environ.get("VERIF_CASE_LIMIT", "120"))


def _on_alarm(signum, frame):
    raise _CaseTimeout()


# ------------------------------------------------------------------ known findings

def load_known(pid):
    path = os.path.join(ROOT, "known_findings.json")
    with open(path) as f:
        data = json.load(f)
    return [e for e in data["findings"] if e.get("status") == "open" and e.get("property") == pid]


def known_entry(known, signature):
    for e in known:
        if signature in e.get("signatures", []):
            return e
    return None


# ------------------------------------------------------------------ helpers

def digest(case):
    return hashlib.sha1(json.dumps(case, sort_keys=True, default=str).encode()).hexdigest()[:16]


def _jsonable(x):
    return json.loads(json.dumps(x, default=str))


class Collector:
    def __init__(self, mod, known):
        self.mod = mod
        self.known = known
        self.evaluations = 0
        self.nontrivial = set()
        self.labels = Counter()
        self.inconclusive = Counter()
        self.known_hits = Counter()
        self.samples = []
        self.last_failure = None
        self.first_failure_at = None
        self.shrink_budget = 20.0
        self.harness_error = None

    def run(self, case):
        """returns list of unlisted violations"""
        out = self.mod.check(case)
        self.evaluations += 1
        for l in out.labels:
            self.labels[l] += 1
        if out.inconclusive:
            self.inconclusive[out.inconclusive] += 1
        if out.nontrivial:
            d = digest(case)
            if d not in self.nontrivial:
                self.nontrivial.add(d)
                if len(self.samples) < 3:
                    self.samples.append(_jsonable(case))
        unlisted = []
        for sig, detail in out.violations:
            if known_entry(self.known, sig) is not None:
                self.known_hits[sig] += 1
            else:
                unlisted.append((sig, detail))
        return unlisted

    def result(self):
        return dict(evaluations=self.evaluations, nontrivial=self.nontrivial, labels=self.labels,
                    inconclusive=self.inconclusive, known_hits=self.known_hits, samples=self.samples,
                    failure=self.last_failure, harness_error=self.harness_error)


# ------------------------------------------------------------------ workers

def _worker(job):
    kind, pid, tier, seed, idx, n = job
    try:
        if kind == "alt":
            import pbt.sut as sut
            if str(sut.PPQN) != os.environ.get("VERIF_PPQN"):
                raise RuntimeError("alternative-PPQN worker did not pick up VERIF_PPQN")
        mod = importlib.import_module(f"pbt.props.{pid.lower()}")
        known = load_known(pid)
        col = Collector(mod, known)
        params = dict(mod.TIERS[tier])
        if os.environ.get("VERIF_EXAMPLES"):
            params["examples"] = int(os.environ["VERIF_EXAMPLES"])
        col.shrink_budget = float(params.get("shrink_seconds", 20 if tier == "quick" else 90))
        if kind in ("hyp", "alt"):
            _run_hypothesis(mod, col, params, seed, idx, n)
        elif kind == "enum":
            _run_enum(mod, col, params, idx, n)
        elif kind == "corpus":
            _run_corpus(mod, col, pid)
        return col.result()
    except BaseException:  # noqa
        return dict(evaluations=0, nontrivial=set(), labels=Counter(), inconclusive=Counter(), known_hits=Counter(),
                    samples=[], failure=None, harness_error=traceback.format_exc())


def _guarded(col, case, source):
    if col.first_failure_at is not None and time.time() - col.first_failure_at > col.shrink_budget:
        # shrink budget used up: stop Hypothesis here and report the smallest failing case found so far (every failing
        # candidate the shrinker accepts is smaller than the previous one, so last_failure is the current best). Only
        # the size of the reported example depends on this wall-clock budget, never the verdict.
        raise _StopShrink()
    signal.signal(signal.SIGALRM, _on_alarm)
    signal.alarm(CASE_LIMIT_S)
    try:
        unlisted = col.run(case)
    except _CaseTimeout:
        # a single small case normally takes milliseconds; one that runs for minutes means the code under test does not
        # terminate on it. A time limit is never a verdict: the run stops with a harness error and shows the case.
        col.harness_error = (f"case from {source} did not finish within {CASE_LIMIT_S} s (no verdict; the code under test "
                             f"probably does not terminate on it):\ncase={json.dumps(case, default=str)[:3000]}")
        raise _HarnessAbort()
    except Exception:  # anything escaping check() is a defect of the harness, never a verdict
        col.harness_error = f"exception in check() on case from {source}:\n{traceback.format_exc()}\ncase={json.dumps(case, default=str)[:3000]}"
        raise _HarnessAbort()
    finally:
        signal.alarm(0)
    if unlisted:
        col.last_failure = dict(case=_jsonable(case), violations=unlisted, source=source, digest=digest(case))
        if col.first_failure_at is None:
            col.first_failure_at = time.time()
        raise _Violation(unlisted[0][0])


def _run_hypothesis(mod, col, params, seed, idx, n):
    import hypothesis
    from hypothesis import given, settings, HealthCheck, Phase
    strat = mod.strategy(params, idx, n)
    shard_seed = seed * 1000 + idx

    @hypothesis.seed(shard_seed)
    @settings(max_examples=params["examples"], database=None, deadline=None, derandomize=False,
              report_multiple_bugs=False, suppress_health_check=list(HealthCheck),
              phases=[Phase.generate, Phase.shrink], print_blob=False, verbosity=hypothesis.Verbosity.quiet)
    @given(strat)
    def test(case):
        _guarded(col, case, f"hypothesis seed={shard_seed}")

    try:
        test()
    except _Violation:
        pass  # col.last_failure holds the final (shrunk) failing case: Hypothesis replays the minimal one last
    except (_HarnessAbort, _StopShrink):
        pass
    except BaseException as e:  # Flaky / Unsatisfiable / strategy errors
        if col.last_failure is None and col.harness_error is None:
            col.harness_error = "hypothesis error:\n" + traceback.format_exc()
        elif col.harness_error is None and not isinstance(e, Exception):
            raise


def _run_enum(mod, col, params, idx, n):
    for k, case in enumerate(mod.enumerate_cases(params)):
        if k % n != idx:
            continue
        try:
            _guarded(col, case, "enumeration")
        except _Violation:
            return
        except _HarnessAbort:
            return


def corpus_files(pid):
    d = os.path.join(ROOT, "corpus", pid)
    if not os.path.isdir(d):
        return []
    return sorted(os.path.join(d, f) for f in os.listdir(d) if f.endswith(".json"))


def _run_corpus(mod, col, pid):
    for path in corpus_files(pid):
        with open(path) as f:
            data = json.load(f)
        case = data["case"] if isinstance(data, dict) and "case" in data else data
        try:
            _guarded(col, case, "corpus:" + os.path.relpath(path, ROOT))
        except _Violation:
            return
        except _HarnessAbort:
            return


def _run_fuzzers(pid, seed, runs, shards):
    """runs pbt.fuzz in `shards` subprocesses; returns worker-style result dicts (empty list if atheris is unavailable)"""
    import subprocess
    env = dict(os.environ)
    deps = os.path.join(ROOT, ".deps")
    env["PYTHONPATH"] = os.pathsep.join([ROOT, deps, env.get("PYTHONPATH", "")])
    probe = subprocess.run([sys.executable, "-c", "import atheris"], env=env, capture_output=True)
    if probe.returncode != 0:
        subprocess.run([sys.executable, "-m", "pip", "install", "-q", "--no-index", "--find-links", "/opt/veriftools/wheels",
                        "--target", deps, "atheris"], capture_output=True)
        if subprocess.run([sys.executable, "-c", "import atheris"], env=env, capture_output=True).returncode != 0:
            sys.stderr.write("note: atheris not importable/installable, coverage-guided supplement skipped\n")
            return []
    os.makedirs(os.path.join(ROOT, ".cache"), exist_ok=True)
    procs = []
    for i in range(shards):
        out = os.path.join(ROOT, ".cache", f"fuzz-{pid}-{os.getpid()}-{i}.json")
        p = subprocess.Popen([sys.executable, "-m", "pbt.fuzz", pid, str(runs), str(seed * 1000 + 900 + i), out], cwd=ROOT, env=env,
                             stdout=subprocess.DEVNULL, stderr=subprocess.DEVNULL)
        procs.append((p, out))
    res = []
    for p, out in procs:
        p.wait()
        try:
            with open(out) as f:
                r = json.load(f)
            os.unlink(out)
        except Exception:
            r = dict(evaluations=0, nontrivial=[], labels={}, inconclusive={}, known_hits={}, samples=[], failure=None,
                     harness_error=f"fuzz shard wrote no result (exit {p.returncode})")
        r["nontrivial"] = set(r["nontrivial"])
        r["labels"] = Counter(r["labels"])
        r["inconclusive"] = Counter(r["inconclusive"])
        r["known_hits"] = Counter(r["known_hits"])
        if p.returncode not in (0, 77, 78) and not r.get("failure") and not r.get("harness_error"):
            r["harness_error"] = f"fuzz shard ended with exit code {p.returncode}"
        res.append(r)
    import shutil
    for d in os.listdir(os.path.join(ROOT, ".cache")):
        if d.startswith("fuzz-corpus-"):
            shutil.rmtree(os.path.join(ROOT, ".cache", d), ignore_errors=True)
    return res


# ------------------------------------------------------------------ main

def write_replay(pid, seed, tier, failure):
    os.makedirs(os.path.join(ROOT, "replays"), exist_ok=True)
    sig = failure["violations"][0][0]
    safe = "".join(c if c.isalnum() or c in "-_." else "_" for c in sig)[:60]
    path = os.path.join(ROOT, "replays", f"{pid}-{safe}-{digest(failure['case'])[:8]}.json")
    with open(path, "w") as f:
        json.dump(dict(property=pid, seed=seed, tier=tier, source=failure.get("source"),
                       violations=failure["violations"], case=failure["case"]), f, indent=1, default=str)
    return os.path.relpath(path, ROOT)


def replay(pid, path):
    mod = importlib.import_module(f"pbt.props.{pid.lower()}")
    known = load_known(pid)
    with open(path) as f:
        data = json.load(f)
    case = data["case"] if isinstance(data, dict) and "case" in data else data
    out = mod.check(case)
    bad = [(s, d) for s, d in out.violations if known_entry(known, s) is None]
    for s, d in out.violations:
        e = known_entry(known, s)
        if e is not None:
            print(f"KNOWN-FINDING: property={pid} {e['what']} [{s}]")
    for s, d in bad:
        print(f"  violation {s}: {d}")
    if bad:
        print(f"VIOLATION property={pid} replay={path}")
        return 1
    print(f"replay {path}: property {pid} holds (nontrivial={out.nontrivial}, labels={out.labels})")
    return 0


class _QuietPipe:
    """stdout wrapper: a reader that closes the pipe early (| head) must not change the exit code"""

    def __init__(self, f):
        self._f, self._dead = f, False

    def write(self, s):
        if not self._dead:
            try:
                return self._f.write(s)
            except BrokenPipeError:
                self._dead = True
        return len(s)

    def flush(self):
        if not self._dead:
            try:
                self._f.flush()
            except BrokenPipeError:
                self._dead = True

    def __getattr__(self, name):
        return getattr(self._f, name)


def main(argv=None):
    sys.stdout = _QuietPipe(sys.stdout)
    ap = argparse.ArgumentParser()
    ap.add_argument("pid")
    ap.add_argument("tier", nargs="?", default=None)
    ap.add_argument("--replay", default=None)
    ap.add_argument("--shards", type=int, default=None)
    ap.add_argument("--examples", type=int, default=None)
    args = ap.parse_args(argv)
    pid = args.pid.upper()
    try:
        import pbt.sut  # noqa: F401  (asserts that scoda comes from the working tree)
        mod = importlib.import_module(f"pbt.props.{pid.lower()}")
    except BaseException:
        sys.stderr.write("harness error while importing:\n" + traceback.format_exc())
        return 2
    if args.replay:
        try:
            return replay(pid, args.replay)
        except BaseException:
            sys.stderr.write("harness error during replay:\n" + traceback.format_exc())
            return 2

    tier = args.tier or os.environ.get("VERIF_TIER") or "quick"
    if tier not in ("quick", "thorough"):
        sys.stderr.write(f"harness error: unknown tier {tier}\n")
        return 2
    seed = int(os.environ.get("VERIF_SEED", "1") or "1")
    params = mod.TIERS[tier]
    if args.shards:
        params["shards"] = args.shards
    if args.examples:
        params["examples"] = args.examples
        os.environ["VERIF_EXAMPLES"] = str(args.examples)      # spawned (alternative-PPQN) workers re-import the module
    t0 = time.time()
    jobs = [("corpus", pid, tier, seed, 0, 1)]
    if hasattr(mod, "enumerate_cases"):
        ne = params.get("enum_shards", 8)
        jobs += [("enum", pid, tier, seed, i, ne) for i in range(ne)]
    if hasattr(mod, "strategy") and params.get("examples", 0) > 0:
        ns = params["shards"]
        jobs += [("hyp", pid, tier, seed, i, ns) for i in range(ns)]
    ncpu = min(len(jobs), int(os.environ.get("VERIF_JOBS", "16")), os.cpu_count() or 1)
    if args.shards or args.examples:
        # parameters were overridden on the command line: make the workers see them
        mod.TIERS[tier] = params
    ctx = multiprocessing.get_context("fork")
    with ctx.Pool(ncpu) as pool:
        results = pool.map(_worker, jobs, chunksize=1)
    # shards that run the library under a non-default PPQN need fresh interpreters (settings are bound at import time)
    alt_jobs = []
    for k, ppqn in enumerate(params.get("alt_ppqn", [])):
        if SCRATCH_ALT_OFF:
            break
        n_alt = params.get("alt_shards", 2)
        os.environ["VERIF_PPQN"] = str(ppqn)
        batch = [("alt", pid, tier, seed, 100 * (k + 1) + i, n_alt) for i in range(n_alt)]
        with multiprocessing.get_context("spawn").Pool(min(len(batch), 16)) as pool:
            results += pool.map(_worker, batch, chunksize=1)
        os.environ.pop("VERIF_PPQN", None)
        alt_jobs += batch
    jobs = jobs + alt_jobs
    # coverage-guided supplement (atheris / libFuzzer through fuzz_one_input), thorough tier of selected properties
    fuzz_runs = int(params.get("fuzz_runs", 0))
    if fuzz_runs and not os.environ.get("VERIF_NO_FUZZ"):
        fr = _run_fuzzers(pid, seed, fuzz_runs, int(params.get("fuzz_shards", 4)))
        results += fr
        jobs = jobs + [("fuzz", pid, tier, seed, 900 + i, len(fr)) for i in range(len(fr))]

    known = load_known(pid)
    evaluations = sum(r["evaluations"] for r in results)
    nontrivial = set().union(*[r["nontrivial"] for r in results])
    labels = sum((r["labels"] for r in results), Counter())
    inconclusive = sum((r["inconclusive"] for r in results), Counter())
    known_hits = sum((r["known_hits"] for r in results), Counter())
    samples = []
    for r in results:
        for s in r["samples"]:
            if len(samples) < 6:
                samples.append(s)
    failures = [r["failure"] for r in results if r["failure"]]
    harness_errors = [r["harness_error"] for r in results if r["harness_error"]]
    wall = time.time() - t0

    replays = []
    seen_sig = set()
    for f in failures:
        sig = f["violations"][0][0]
        if sig in seen_sig:
            continue
        seen_sig.add(sig)
        replays.append((sig, f["violations"][0][1], write_replay(pid, seed, tier, f)))

    min_nt = getattr(mod, "MIN_NONTRIVIAL", 0.2)
    vacuous = evaluations > 0 and len(nontrivial) < max(2, min_nt * evaluations * 0.5) and not failures

    evidence = dict(
        property_id=pid, tier=tier, seed=seed, level="exploration",
        coverage=dict(
            evaluations=evaluations, distinct_nontrivial=len(nontrivial),
            rule=mod.RULE, samples=samples if samples else [None],
            exhaustive=bool(getattr(mod, "EXHAUSTIVE", False)),
            labels=dict(sorted(labels.items())), inconclusive=dict(inconclusive),
            known_finding_hits=dict(known_hits), corpus_cases=len(corpus_files(pid)),
            shards=len(jobs), shard_seeds=[seed * 1000 + j[4] for j in jobs if j[0] in ("hyp", "alt")],
            alt_ppqn=list(params.get("alt_ppqn", [])),
            coverage_guided_runs=sum(1 for j in jobs if j[0] == "fuzz") * int(params.get("fuzz_runs", 0)),
            parameters={k: v for k, v in params.items()},
        ),
        assumptions=list(getattr(mod, "ASSUMPTIONS", [])),
        wall_s=round(wall, 2), violations=len(replays),
    )
    os.makedirs(EVID_DIR, exist_ok=True)
    with open(os.path.join(EVID_DIR, f"{pid}.json"), "w") as f:
        json.dump(evidence, f, indent=1, default=str)
        f.write("\n")

    print(f"{pid} {tier} seed={seed}: {evaluations} cases, {len(nontrivial)} distinct non-trivial, "
          f"{sum(inconclusive.values())} inconclusive, {wall:.1f}s")
    top = ", ".join(f"{k}={v}" for k, v in sorted(labels.items(), key=lambda kv: -kv[1])[:14])
    if top:
        print(f"  labels: {top}")
    for e in known:
        hits = {s: known_hits[s] for s in e.get("signatures", []) if known_hits.get(s)}
        if hits:
            print(f"KNOWN-FINDING: property={pid} {e['what']} (reproduced {sum(hits.values())}x: "
                  f"{', '.join(sorted(hits))[:300]})")
    if replays:
        # a reproducible violation found by one shard stands, whatever stopped another shard
        for sig, detail, path in replays:
            print(f"  violation {sig}: {detail[:600]}")
            print(f"VIOLATION property={pid} replay={path}")
        if harness_errors:
            sys.stderr.write("harness error in another shard (does not affect the violation above):\n" + harness_errors[0] + "\n")
        return 1
    if harness_errors:
        sys.stderr.write("harness error:\n" + harness_errors[0] + "\n")
        return 2
    if vacuous:
        sys.stderr.write(f"harness error: only {len(nontrivial)} distinct non-trivial cases out of {evaluations} "
                         f"(floor {min_nt}); a vacuous run must not look like a pass\n")
        return 2
    return 0


if __name__ == "__main__":
    sys.exit(main())
