"""Import the code under test from the working tree of the repository (default /repo).

scoda is a namespace package that is also installed editable; the working tree is put first on
sys.path and the origin of an actual module is asserted, so the checks always run what is on disk.
"""
import logging
import os
import sys

REPO = os.environ.get("VERIF_REPO", "/repo")
sys.dont_write_bytecode = True
if REPO in sys.path:
    sys.path.remove(REPO)
sys.path.insert(0, REPO)
logging.disable(logging.CRITICAL)

# Optional: run the library under a non-default resolution. The library reads its settings (PPQN among them) from a
# JSON file when scoda.settings.settings is imported and every module binds PPQN by value at import time, so the
# alternative file has to be loaded before anything else of scoda is imported. Used by the 'alt_ppqn' shards.
PPQN = 24
_alt = os.environ.get("VERIF_PPQN")
if _alt and int(_alt) != 24:
    import json as _json
    import tempfile as _tempfile
    from pathlib import Path as _Path
    import scoda.settings.settings as _settings
    _cfg = _json.load(open(os.path.join(REPO, "scoda", "config", "default_settings.json")))
    _cfg["general_settings"]["ppqn"] = int(_alt)
    _root = os.path.dirname(os.path.dirname(os.path.abspath(__file__)))
    os.makedirs(os.path.join(_root, ".cache"), exist_ok=True)
    _fd, _path = _tempfile.mkstemp(suffix=".json", dir=os.path.join(_root, ".cache"))
    with os.fdopen(_fd, "w") as _f:
        _json.dump(_cfg, _f)
    _settings.load_from_file(_Path(_path))
    os.unlink(_path)
    PPQN = int(_alt)

from scoda.elements.message import Message  # noqa: E402
from scoda.enumerations.message_type import MessageType as MT  # noqa: E402
from scoda.sequences.sequence import Sequence  # noqa: E402
from scoda.sequences.absolute_sequence import AbsoluteSequence  # noqa: E402
from scoda.sequences.relative_sequence import RelativeSequence  # noqa: E402
from scoda.elements.bar import Bar  # noqa: E402
from scoda.elements.track import Track  # noqa: E402
from scoda.elements.composition import Composition  # noqa: E402
from scoda.misc.music_theory import Key, CircleOfFifths, MusicMapping, Note  # noqa: E402
from scoda.exceptions.bar_exception import BarException  # noqa: E402
from scoda.exceptions.sequence_exception import SequenceException  # noqa: E402
from scoda.exceptions.tokenisation_exception import TokenisationException  # noqa: E402
from scoda.tokenisation.notelike_tokenisation import MultiTrackLargeVocabularyNotelikeTokeniser as Tokeniser  # noqa: E402
from scoda.midi.midi_file import MidiFile  # noqa: E402
import scoda.sequences.sequence as _seqmod  # noqa: E402

_origin = os.path.realpath(_seqmod.__file__)
if not _origin.startswith(os.path.realpath(REPO) + os.sep):
    raise ImportError(f"harness error: scoda was imported from {_origin}, not from {REPO}")
import scoda.settings.settings as _s  # noqa: E402
if _s.PPQN != PPQN or _seqmod.PPQN != PPQN:
    raise ImportError(f"harness error: library runs with PPQN {_s.PPQN}/{_seqmod.PPQN}, harness expects {PPQN}")
