"""Shared generators / builders for the tokeniser properties (C01, C02, C03, C19, C11)."""
from hypothesis import strategies as st

from pbt import gens
from pbt.sut import Tokeniser

DEFAULT_STEPS = [2, 3, 4, 6, 8, 12, 16, 24]
DEFAULT_VALUES = [4, 6, 8, 9, 12, 16, 18, 24, 36]
FLAG_NAMES = ["flag_running_values", "flag_fuse_track", "flag_fuse_value", "flag_fuse_velocity"]
# time signatures whose length is a whole number of eighths within 2..16 (num, den)
SIGNATURES = ([(n, 8) for n in range(2, 17)] + [(n, 4) for n in range(1, 9)] + [(n, 2) for n in range(1, 5)] +
              [(n, 16) for n in range(4, 33, 2)] + [(n, 32) for n in range(8, 65, 4)] + [(n, 64) for n in range(16, 129, 8)] +
              [(n, 1) for n in range(1, 3)])


def signatures_for(ts_range):
    """every (num, den), den a power of two up to 64, that lasts a whole number of eighths within ts_range"""
    lo, hi = ts_range
    out = []
    for den in (1, 2, 4, 8, 16, 32, 64):
        for scaled in range(lo, hi + 1):
            if (scaled * den) % 8 == 0 and scaled * den // 8 >= 1:
                out.append((scaled * den // 8, den))
    return out


SPECIAL_BINS = [1, 2, 3, 4, 5, 8, 15, 16, 19, 22, 32, 36, 64, 100, 127]


def flags_from_index(i):
    return {name: bool((i >> b) & 1) for b, name in enumerate(FLAG_NAMES)}


@st.composite
def config(draw, shard=0, nshards=1, max_tracks=4, small_vocab=True):
    """plain-data tokeniser configuration. The 16 flag combinations are visited round-robin (shard + drawn offset)
    so that none is starved."""
    combo = draw(st.one_of(st.just(shard % 16), st.just((shard + nshards) % 16), st.integers(0, 15)))
    cfg = {"num_tracks": draw(st.integers(1, max_tracks))}
    if max_tracks >= 4 and draw(st.integers(0, 11)) == 0:
        # two-digit track numbers, and more tracks than a MIDI file has channels
        cfg["num_tracks"] = draw(st.one_of(st.integers(5, 12), st.sampled_from([16, 17, 18, 20])))
    cfg["ts_range"] = draw(st.sampled_from([None, None, None, None, [1, 16], [2, 12], [4, 20], [1, 24], [8, 8], [2, 6], [9, 16]]))
    # resolution the tokeniser computes bar capacities with (None = library default 24); pieces are laid out on
    # bars of 4*ppqn*num/den ticks, so only multiples of 24 keep every capacity a multiple of the rest unit
    cfg["ppqn"] = draw(st.sampled_from([None, None, None, None, None, 24, 48, 96]))
    cfg.update(flags_from_index(combo))
    cfg["flag_simplify_time_signature"] = draw(st.booleans())
    cfg["velocity_bins"] = draw(st.one_of(st.integers(1, 16), st.sampled_from(SPECIAL_BINS), st.integers(1, 127)))
    if small_vocab and cfg["velocity_bins"] > 32:
        width = draw(st.integers(0, 2))
    else:
        width = draw(st.one_of(st.integers(0, 5), st.integers(0, 12)))
    lo = draw(st.one_of(st.integers(0, 127 - width), st.sampled_from([0, 21, 60, 108, 127 - width])))
    lo = min(lo, 127 - width)
    cfg["pitch_range"] = [lo, lo + width]
    if draw(st.integers(0, 3)) == 0:
        cfg["step_sizes"] = None
        cfg["unit"] = 2
    else:
        u = draw(st.sampled_from([1, 2, 3, 4, 6, 12]))
        ks = draw(st.lists(st.sampled_from([2, 3, 4, 5, 6, 8, 12, 16, 24]), max_size=5, unique=True))
        cfg["step_sizes"] = draw(st.permutations(sorted({u} | {u * k for k in ks})))
        cfg["unit"] = u
    if draw(st.integers(0, 2)) == 0:
        cfg["note_values"] = None
    else:
        vals = draw(st.lists(st.one_of(st.integers(1, 48), st.sampled_from([1, 2, 3, 12, 24, 48, 96, 100, 192])),
                             min_size=1, max_size=6, unique=True))
        cfg["note_values"] = list(vals)
    return cfg


def make_tokeniser(cfg):
    kw = {k: cfg[k] for k in FLAG_NAMES}
    kw["flag_simplify_time_signature"] = cfg.get("flag_simplify_time_signature", True)
    if cfg.get("ts_range"):
        kw["time_signature_range"] = tuple(cfg["ts_range"])
    return Tokeniser(ppqn=cfg.get("ppqn"), num_tracks=cfg["num_tracks"], pitch_range=tuple(cfg["pitch_range"]),
                     step_sizes=list(cfg["step_sizes"]) if cfg["step_sizes"] is not None else None,
                     note_values=list(cfg["note_values"]) if cfg["note_values"] is not None else None,
                     velocity_bins=cfg["velocity_bins"], **kw)


def note_values_of(cfg):
    return sorted(cfg["note_values"]) if cfg["note_values"] is not None else list(DEFAULT_VALUES)


def step_sizes_of(cfg):
    return sorted(cfg["step_sizes"]) if cfg["step_sizes"] is not None else list(DEFAULT_STEPS)


@st.composite
def bar_plan(draw, max_bars=6, allow_default_first=True, min_bars=1, ppqn=24, ts_range=None):
    """list of bars [(start, length, (num, den))] and the signature events [["ts", tick, num, den]]"""
    nbars = draw(st.integers(min_bars, max_bars))
    sigs = SIGNATURES if not ts_range else signatures_for(ts_range)
    # the implicit default (8 eighths) is only a valid first bar if 8 lies in the tokeniser's signature range
    explicit = draw(st.booleans()) or not allow_default_first or (ts_range is not None and not ts_range[0] <= 8 <= ts_range[1])
    cur = draw(st.sampled_from(sigs)) if explicit else (4, 4)
    events = [["ts", 0, cur[0], cur[1]]] if explicit else []
    bars = []
    t = 0
    for b in range(nbars):
        if b > 0 and draw(st.integers(0, 2)) == 0:
            extra = [s for s in [(2, 8), (3, 8), (16, 8), (4, 4)] if s in sigs] or sigs
            if len(set(sigs)) > 1:
                # a new value, or a return to a signature that was in force earlier (A, B, A)
                earlier = [tuple(b[2]) for b in bars if tuple(b[2]) != tuple(cur)] or sigs
                cur = draw(st.one_of(st.sampled_from(sigs), st.sampled_from(extra), st.sampled_from(earlier))
                           .filter(lambda s, c=cur: tuple(s) != tuple(c)))
            events.append(["ts", t, cur[0], cur[1]])
        length = 4 * ppqn * cur[0] // cur[1]
        bars.append([t, length, list(cur)])
        t += length
    return bars, events


@st.composite
def piece(draw, cfg, max_bars=6, max_notes=10, allow_crossing=True, noise=True, min_bars=1, spread=True):
    """A piece that meets exactly the tokeniser's input constraints for cfg:
    {"bars": [[start, length, [num, den]]...], "tracks": [seqspec...], "meta_track": j}
    Track i's notes all carry channel `chan[i]` (arbitrary; tokenise relabels)."""
    u = cfg["unit"]
    values = note_values_of(cfg)
    lo, hi = cfg["pitch_range"]
    nt = cfg["num_tracks"]
    bars, ts_events = draw(bar_plan(max_bars=max_bars, min_bars=min_bars, ppqn=cfg.get("ppqn") or 24,
                                    ts_range=cfg.get("ts_range")))
    total = bars[-1][0] + bars[-1][1]
    meta_track = draw(st.integers(0, nt - 1))
    pad_mode = draw(st.sampled_from(["none", "grid_tick", "full", "mixed"]))
    crossing = allow_crossing and pad_mode == "full" and draw(st.booleans())
    shape = draw(st.sampled_from(["free", "free", "first-tick-only", "runs", "empty-piece" if nt else "free"]))
    pitch_pool = list(range(lo, hi + 1))
    # the signature changes either all sit on one track or are spread over the tracks (tokenise takes them from anywhere)
    ts_spread = spread and nt > 1 and draw(st.integers(0, 2)) == 0
    # (two owner tracks, so that consecutive changes alternate between tracks and return to a track)
    owners = [draw(st.integers(0, nt - 1)), draw(st.integers(0, nt - 1))] if ts_spread else []
    ts_owner = [owners[draw(st.integers(0, 1))] for _ in ts_events] if ts_spread else []
    tracks = []
    for i in range(nt):
        chan = draw(st.integers(0, 15))
        notes = []
        occupied = {}

        def add(p, on, val, vel):
            off = on + val
            if off > total:
                return
            inside = any(b[0] <= on and off <= b[0] + b[1] for b in bars)
            if not crossing and not inside:
                return
            if not inside and off >= total:
                # a bar-crossing note that ends on the final tick leaves no trailing rest, so tokenise cannot see the
                # bars it crosses into (bar-wise input contract of tokenise); not generated, see DESIGN section 7
                return
            for a, z in occupied.get(p, []):
                if on < z and a < off:
                    return
            occupied.setdefault(p, []).append((on, off))
            notes.append([chan, p, on, off, vel])

        if shape == "empty-piece" or draw(st.integers(0, 7)) == 0:
            pass
        elif shape == "first-tick-only":
            for b in bars:
                if draw(st.booleans()):
                    for _ in range(draw(st.integers(1, 2))):
                        add(draw(st.sampled_from(pitch_pool)), b[0], draw(st.sampled_from(values)), draw(st.integers(1, 127)))
        elif shape == "runs":
            # consecutive notes in which exactly one of value / velocity changes between neighbours
            b = draw(st.sampled_from(bars))
            on = b[0]
            val = draw(st.sampled_from(values))
            vel = draw(st.integers(1, 127))
            for _ in range(draw(st.integers(3, 6))):
                which = draw(st.sampled_from(["value", "velocity", "none"]))
                if which == "value":
                    val = draw(st.sampled_from(values))
                elif which == "velocity":
                    vel = draw(st.integers(1, 127))
                add(draw(st.sampled_from(pitch_pool)), on, val, vel)
                on += u * draw(st.integers(0, 3))
        else:
            for _ in range(draw(st.integers(0, max_notes))):
                b = draw(st.sampled_from(bars))
                on = b[0] + u * draw(st.integers(0, max(0, (b[1] - 1) // u)))
                add(draw(st.sampled_from(pitch_pool)), on, draw(st.sampled_from(values)), draw(st.integers(1, 127)))
        notes.sort()
        if ts_spread:
            meta = [list(e) + [chan] for k, e in enumerate(ts_events) if ts_owner[k] == i]
        else:
            meta = [list(e) + [chan] for e in ts_events] if i == meta_track else []
        last_on = max([n[2] for n in notes], default=None)
        if noise and last_on is not None and draw(st.integers(0, 3)) == 0:
            meta.append(["ks", draw(st.integers(0, last_on)), draw(st.sampled_from(gens.KEYS)), chan])
            if draw(st.booleans()):
                meta.append(["cc", draw(st.integers(0, last_on)), 64, draw(st.integers(0, 127)), chan])
        spec = {"notes": notes, "meta": meta}
        spec.update(draw(gens.route(allow_post=True)))
        if ts_spread and spec.get("post") == "normalise":
            # normalising one track on its own would drop a signature that returns to that track's previous value although
            # another track changed it in between: the input would no longer be the piece described by `bars`
            spec["post"] = None
        end = max([n[3] for n in notes] + [e[1] for e in meta] + [0])
        mode = pad_mode if pad_mode != "mixed" else draw(st.sampled_from(["none", "grid_tick", "full"]))
        if mode == "none":
            spec["pad"] = None
        elif mode == "full":
            spec["pad"] = total
        else:
            lo_t = -(-end // u)
            spec["pad"] = u * draw(st.integers(lo_t, max(lo_t, total // u)))
        if spec["pad"] is not None or not notes:
            gens.late_notes(draw, spec, one_in=6)        # (with a pad in place the late notes do not change the duration)
        tracks.append(spec)
    return {"bars": bars, "tracks": tracks, "meta_track": meta_track, "crossing": crossing, "shape": shape,
            "pad_mode": pad_mode}


def expected_bins(tok):
    return [b for b in tok.velocity_bins]


def binned(bins, v):
    cands = [b for b in bins if b >= v]
    return min(cands) if cands else None
