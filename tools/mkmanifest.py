#!/usr/bin/env python3
"""Regenerates /verif/MANIFEST.json from the table below (one entry per property module that exists)."""
import json
import os

ROOT = os.path.dirname(os.path.dirname(os.path.abspath(__file__)))

# id -> (technique, level text, level note)
T = {
    "C01": ("Hypothesis-generated (configuration, piece) pairs; round-trip oracle on raw messages",
            "Generated search over the tokeniser configuration lattice (all 16 flag combinations round-robin, velocity_bins 1..127, "
            "pitch ranges, step/note-value sets, 1..12 tracks, tokeniser ppqn, time_signature_range) and bar-grid pieces; tokenise->encode->decode->detokenise is compared "
            "note for note (pitch, onset, duration, binned velocity), bar grid and total duration with a harness-side pairing "
            "automaton. Bounded exploration, not a proof: pieces of <= 6 bars / <= 10 notes per track (thorough: <= 9 bars / 20 notes).",
            "Trusts Hypothesis' generator/shrinker and the harness oracle (pbt/oracles.py); pieces are constructed to satisfy exactly "
            "the statement's input constraints."),
    "C02": ("exhaustive enumeration of the configuration lattice + Hypothesis closure check against tokenise output",
            "The finite vocabulary side is enumerated completely over a stated configuration lattice (16 flag combinations x "
            "velocity_bins 1..127 x track counts x pitch ranges x step/value sets): ids consecutive, size = entries, encode/decode "
            "inverse, every member accepted by detokenise. Closure under tokenise is searched with generated pieces and an exhaustive "
            "one-note-per-shape sweep. One open known finding (duplicate velocity-bin edges) is matched by exact bin count.",
            "Lattice bounds as stated in the evidence rule; closure is bounded exploration."),
    "C03": ("Hypothesis-generated pieces x all/random partitions of the bar sequence; differential oracle (chunked vs single call)",
            "Differential check: the same piece is tokenised in one call and in consecutive whole-bar chunks with a threaded state dict "
            "(every composition of the bar count for <= 6 bars in thorough, random + extremes in quick); bars come from "
            "sequences_split_bars, from directly built Bar objects, or are cut out of the raw tracks with Sequence.split (chunks that do not "
            "restate their signature, optional stray mid-bar signature message); both streams must be in the "
            "vocabulary and detokenise to the same notes, INTERNAL bar ticks and durations per track.",
            "The state dict is treated as opaque; only whole-bar chunking is in scope (as the statement says)."),
    "C04": ("Hypothesis-generated operation histories (op lists over the full public alphabet); invariants + clean-replica differential + direct model",
            "Model-based history search: op lists over the whole public Sequence alphabet (incl. scale with factors below 1 and the sequence as its own meta "
            "sequence, merge of one object twice, reads before/after edits inside messages_*()) from every freshness state; after every step "
            "readability, passive agreement of the two private views, conversion agreement, equality with a clean replica that only "
            "holds the fresh view(s), and a direct model for simple operations are asserted.",
            "Reads the private slots _abs/_rel/_abs_stale/_rel_stale from outside; histories <= 30 steps (thorough <= 60), <= 8 notes; a fifth of the shards runs the library with a non-default PPQN."),
    "C05": ("Hypothesis-generated well-formed multi-channel sequences x step lists; validity-predicate oracle",
            "Generated search with a validity predicate (on-grid, displacement <= max step, pairing automaton without anomalies, no "
            "overlap per channel+pitch, non-note events conserved, survival rule with the narrowest candidate sets).",
            "Inputs respect the library's tie convention; ticks <= 400, <= 10 notes."),
    "C06": ("Hypothesis-generated sequences x note-value lists x do_not_extend; reference-model oracle",
            "Generated search against a reference model: per note the set of fitting durations is recomputed independently; presence iff "
            "the set is non-empty, duration a minimiser of |v - old| within it, everything else untouched.",
            "Notes matched by (channel, pitch, onset), unique for well-formed input."),
    "C07": ("Hypothesis-generated arbitrary (ill-formed) relative message lists; automaton oracle + sounding-set + idempotence",
            "Generated search over arbitrary event lists incl. unclosed/re-triggered/orphaned/nested notes and repeated signatures; an "
            "independent automaton checks strict alternation in list order, repeats gone, duration kept; for paired input the sounding "
            "set is compared and normalise must be idempotent.",
            "<= 24 messages over 2 channels x 4 pitches."),
    "C08": ("Hypothesis-generated sequences x capacity lists; conservation oracle (durations, sounding set with velocities, events)",
            "Generated search with conservation oracles: piece count, exact capacities, duration sum, no unclosed note per piece, "
            "sounding set + velocity per tick and non-note events on a common clock equal the source's; source unchanged.",
            "Boundaries are biased onto note ends, meta events and the final tick."),
    "C09": ("Hypothesis-generated bar-grid pieces; grid/carry/conservation oracle",
            "Generated search over multi-track bar-grid pieces: equal bar count, exact bar lengths, carried time and key signature, one "
            "signature event at tick 0 per bar, sounding-set conservation (exact / subset rule), inputs unchanged.",
            "Signature changes only on bar starts of the meta track (the statement's precondition)."),
    "C10": ("Hypothesis-generated (sequence, numerator, denominator, key); outcome-classification oracle",
            "Generated search: Bar construction must raise BarException exactly where the statement demands it and otherwise yield a "
            "bar of exactly the capacity with a single leading signature; copies equal.",
            "Durations drawn relative to the capacity (incl. the quarter-note/tick confusion region)."),
    "C11": ("Hypothesis-generated operation pipelines over integer-tick inputs; type-invariant oracle",
            "Generated pipelines of the listed public operations; after every stage every time value reachable from the result must be "
            "of integer type in both views and every token must match an integer-only grammar.",
            "Pipelines <= 6 stages; TokenisationException = input not accepted (inconclusive)."),
    "C12": ("Hypothesis-generated sequence lists; save->load round-trip oracle through real files",
            "Round-trip through real MIDI files in a private temp directory: notes identical per index, in-force time/key signature "
            "functions on the meta sequence equal to what was saved, 4/4 default.",
            "mido's file reader/writer is trusted."),
    "C13": ("Hypothesis-generated mido files x groupings; exact-rational oracle (Fractions, must/may sets)",
            "Generated MIDI files of arbitrary resolution and delta patterns; positions are recomputed as exact Fractions and the output "
            "sounding set must lie between the must/may sets (they differ only at exact .5 ties); routing of notes and signatures by "
            "group is checked.",
            "Notes >= 1.5 library ticks so rounding cannot annihilate them."),
    "C14": ("Hypothesis-generated sequences and bars x intervals; wrap-model oracle",
            "Generated search against a reference model of octave wrapping; return flag, range, image-of-original, exact shift + inverse "
            "when nothing wraps, key signatures (sequence and bar) transposed and never None.",
            "Enharmonic spelling free."),
    "C15": ("Hypothesis-generated families of sequences; union/fusion oracle + permutation metamorphic relation",
            "Generated search: sounding set = union, fused clusters, in-force-filtered signature union, max duration, and order "
            "independence (a second merge in permuted order).",
            "Same-tick signature events of several inputs are resolved in merge order (the library documents its sort as stable)."),
    "C16": ("Hypothesis-generated originals x derivation routes x op lists on either side; aliasing oracle",
            "Generated histories: derive (copy at every level, split, bar splitting), mutate one side, the other side's canonical content "
            "in both views must be unchanged and its views must still agree.",
            "Op lists contain in-place mutators of message objects."),
    "C17": ("Hypothesis-generated pairs (identical / re-ordered / re-represented / single-attribute perturbations) x 16 flag combinations",
            "Generated pairs with a known ground truth for every flag combination: equal partners must compare equal, a single-attribute "
            "perturbation must compare unequal unless exactly its own flag is set; reflexive and symmetric.",
            "Perturbations keep well-formedness."),
    "C18": ("Hypothesis-generated sequences x boundary-biased arguments; direct-model oracle",
            "Generated search with an exact model of pad, cutoff, integer scale and set_channel on raw events.",
            "scale with quantise_afterwards=False (pure scaling)."),
    "C19": ("Hypothesis-generated arbitrary vocabulary streams and tokenise output; black-box differential against detokenise prefixes",
            "Generated token streams (arbitrary and tokenise-produced) for every flag combination: annotation lengths, positions, and for "
            "each note token the onset recovered black-box from detokenise of the prefixes must equal info_time; pitch and fifths "
            "position from an independent table.",
            "O(n^2) detokenise calls bound the stream length to 60 tokens."),
    "C20": ("exhaustive enumeration of the finite tables + Hypothesis for unbounded intervals",
            "The tables are finite: 15 keys x intervals -48..48, interval pairs -13..13, all 128x128 pitch pairs and 128 x distances "
            "-12..12 are enumerated completely on every run; intervals of arbitrary magnitude are drawn by Hypothesis.",
            "Tonic = first entry of each KeyNoteMapping scale (cross-checked by the major-scale shape check)."),
}

SECTION = {k: "6 / " + k for k in T}


def main():
    props = [json.loads(l) for l in open(os.path.join(ROOT, "properties.jsonl"))]
    checks = []
    na = []
    for p in props:
        pid = p["id"]
        if os.path.exists(os.path.join(ROOT, "pbt", "props", pid.lower() + ".py")):
            tech, text, note = T[pid]
            checks.append(dict(
                property_id=pid,
                quick_cmd=f"./check {pid} quick",
                thorough_cmd=f"./check {pid} thorough",
                evidence_file=f"evidence/{pid}.json",
                replay_cmd_template=f"./check {pid} --replay {{path}}",
                engine="pbt",
                level_claimed=dict(category="exploration", text=text, design_ref=SECTION[pid]),
                level_note=note,
                technique="property-based testing: " + tech,
            ))
        else:
            na.append(dict(property_id=pid, reason="check under construction in this session (design in DESIGN.md section 6); "
                                                   "not claimed until its module is registered"))
    manifest = dict(
        version=1,
        setup_cmd="mkdir -p evidence replays .cache && (/venv/bin/python -c 'import hypothesis' 2>/dev/null || /venv/bin/python -m pip install -q "
                  "--no-index --find-links /opt/veriftools/wheels --target .deps hypothesis)",
        hooks=dict(guard="SCODA_VERIF", enable="no source hooks: checks import scoda from /repo's working tree (VERIF_REPO overrides the path) "
                                                "and read private slots from outside",
                   baseline_off_cmd="cd /repo && /venv/bin/python -m pytest -ra -q -p no:cacheprovider --timeout=900 --continue-on-collection-errors",
                   source_commits=[], add_only=True),
        engines=[dict(name="pbt", path="pbt/runner.py", serves_properties=[c["property_id"] for c in checks],
                      kind_free_text="Hypothesis 6.168 strategies + exhaustive enumeration, sharded over 16 processes; oracles in pbt/oracles.py")],
        checks=checks,
        not_applicable=na,
        notes="Technique family: property-based testing / fuzzing. Every check: exit 0 = held on everything explored, exit 1 + VIOLATION line, "
              "exit 2 = harness error. VERIF_SEED seeds every shard (seed*1000+shard). Genuine defects repaired in /repo are listed as "
              "fixed entries in known_findings.json; open entries print KNOWN-FINDING lines.",
    )
    with open(os.path.join(ROOT, "MANIFEST.json"), "w") as f:
        json.dump(manifest, f, indent=1)
        f.write("\n")
    print("claimed:", [c["property_id"] for c in checks])


if __name__ == "__main__":
    main()
