#!/usr/bin/env python3
"""Sensitivity testing: apply one hand-written mutant at a time to a scratch copy of /repo's scoda package and run the
quick tier of the properties that must catch it (VERIF_REPO points the checks at the scratch copy; /repo is never touched).

usage: tools/mutants.py [-p C05] [-m name] [--seeds 1,2,3] [--list]
A mutant is (name, file, old, new, [property ids that must report a violation]).
"""
import argparse
import json
import os
import shutil
import subprocess
import sys

ROOT = os.path.dirname(os.path.dirname(os.path.abspath(__file__)))
REPO = "/repo"
SEQ = "scoda/sequences/sequence.py"
ABS = "scoda/sequences/absolute_sequence.py"
REL = "scoda/sequences/relative_sequence.py"
TOK = "scoda/tokenisation/notelike_tokenisation.py"
BAR = "scoda/elements/bar.py"
MTH = "scoda/misc/music_theory.py"
UTL = "scoda/misc/util.py"
MSG = "scoda/elements/message.py"
ABSTRACT = "scoda/sequences/abstract_sequence.py"
MF = "scoda/midi/midi_file.py"
MTR = "scoda/midi/midi_track.py"
MM = "scoda/midi/midi_message.py"
TRK = "scoda/elements/track.py"
CMP = "scoda/elements/composition.py"

M = []


def mut(name, file, old, new, props):
    M.append((name, file, old, new, props))


# ---- reverts of the fix: commits (R1..R17)
mut("R1-transpose-key-none", MTH, "\n        return key\n", "\n", ["C14", "C20"])
mut("R12-unsorted-removal", ABS, "enumerate(sorted(original_indices_to_remove))", "enumerate(original_indices_to_remove)", ["C05"])
mut("R14-orphan-off-kept", REL, "                    if len(note_list) == 0:\n                        continue\n\n                    note_list.pop(-1)",
    "                    if len(note_list) > 0:\n                        note_list.pop(-1)", ["C07"])
mut("R15-unclosed-kept", REL, "for key in open_messages[channel].keys():", "for key in open_messages.keys():", ["C07"])
mut("R11-equals-no-time", ABS, "            if self_msg.time != other_msg.time:\n                return False\n", "", ["C17"])
mut("R10-split-shares", REL, "working_memory = [msg.copy() for msg in self._messages]", "working_memory = copy.copy(self._messages)", ["C16"])
mut("R17-split-drops-final", REL, "                    current_sequence._messages.extend(next_sequence_queue)\n", "", ["C08"])
mut("R16-split-pitch-only", REL, "open_messages[(msg.channel, msg.note)] = msg", "open_messages[msg.note] = msg", ["C08"])
mut("R9-overwrite-stale", SEQ, "        self._rel = rel\n        self._rel_stale = False\n", "        self._rel = rel\n", ["C04"])
mut("R8-bar-not-closed", TOK, "if (cur_time_bar > 0 or cur_bar_has_notes) and cur_bar_capacity_remaining > 0:",
    "if cur_time_bar > 0 and cur_bar_capacity_remaining > 0:", ["C01", "C03"])
mut("R7-bar-quarter-vs-ticks", BAR, "if self.sequence.get_sequence_duration_relation() * PPQN > self.time_signature_numerator",
    "if self.sequence.get_sequence_duration_relation() > self.time_signature_numerator", ["C10"])
mut("R6-bar-float-pad", BAR, "self.sequence.pad(int(self.time_signature_numerator * PPQN / (self.time_signature_denominator / 4)))",
    "self.sequence.pad(self.time_signature_numerator * PPQN / (self.time_signature_denominator / 4))", ["C11"])
mut("R5-vocab-trailing-dash", TOK, '            token = token.rstrip("-")\n', "", ["C02", "C01"])
mut("R3-last-bin", UTL, "    bins[-1] = velocity_max\n", "", ["C01"])
mut("R2-float-bins", UTL, "bins = [int(min(velocity_max, ((i + 1) * bin_size) + bin_size / 2)) for",
    "bins = [min(velocity_max, ((i + 1) * bin_size) + bin_size / 2) for", ["C01", "C02"])

# ---- design-time must-catch mutants, per property
# C14
mut("C14-lower-bound-le", REL, "while msg.note < NOTE_LOWER_BOUND:", "while msg.note <= NOTE_LOWER_BOUND:", ["C14"])
mut("C14-flag-one-side", REL, "                while msg.note > NOTE_UPPER_BOUND:\n                    had_to_shift = True\n",
    "                while msg.note > NOTE_UPPER_BOUND:\n", ["C14"])
mut("C14-key-negated", REL, "msg.key = Key.transpose_key(msg.key, transpose_by)", "msg.key = Key.transpose_key(msg.key, -transpose_by)", ["C14"])
mut("C14-bar-key-not-updated", BAR, "            self.key_signature = Key.transpose_key(self.key_signature, transpose_by)\n",
    "            pass\n", ["C14"])
# C20
mut("C20-table-swap", MTH, "key_transpose_order = [Key.C, Key.C_S, Key.D, Key.E_B,", "key_transpose_order = [Key.C, Key.D, Key.C_S, Key.E_B,", ["C20", "C14"])
mut("C20-distance-sign", MTH, "distance_left = 12 - distance_right", "distance_left = 11 - distance_right", ["C20"])
mut("C20-scale-entry", MTH, "Key.E_B: ([Note.D_S, Note.F, Note.G, Note.G_S,", "Key.E_B: ([Note.D_S, Note.F, Note.G, Note.A,", ["C20"])

# C18
mut("C18-pad-full-length", REL, "time=padding_length - current_length))", "time=padding_length))", ["C18"])
mut("C18-pad-first-wait-only", REL, "                current_length += msg.time\n\n                if current_length >= padding_length:\n                    break",
    "                current_length += msg.time\n                break", ["C18"])
mut("C18-cutoff-ge", ABS, "if message_pairing[1].time - message_pairing[0].time > maximum_length:", "if message_pairing[1].time - message_pairing[0].time >= maximum_length:", ["C18"])
mut("C18-cutoff-writes-max", ABS, "message_pairing[1].time = message_pairing[0].time + reduced_length", "message_pairing[1].time = message_pairing[0].time + maximum_length", ["C18"])
mut("C18-scale-skips-first", REL, "            for msg in self._messages:\n                if msg.message_type == MessageType.WAIT:\n                    msg.time = msg.time * factor\n        # Handle",
    "            for msg in self._messages[1:]:\n                if msg.message_type == MessageType.WAIT:\n                    msg.time = msg.time * factor\n        # Handle", ["C18"])
mut("C18-set-channel-skips-meta", REL, "        for msg in self._messages:\n            msg.channel = channel",
    "        for msg in self._messages:\n            if msg.note is not None or msg.message_type == MessageType.WAIT:\n                msg.channel = channel", ["C18"])
mut("C18-pad-no-invalidate", SEQ, "        self.rel.pad(padding_length)\n        self.invalidate_abs()", "        self.rel.pad(padding_length)", ["C18", "C04"])

# C17
mut("C17-duration-dropped", ABS, "if self_msg.note != other_msg.note or self_msg_value != other_msg_value:", "if self_msg.note != other_msg.note:", ["C17"])
mut("C17-velocity-on-off", ABS, "if self_msg.velocity != other_msg.velocity and not ignore_velocity:", "if self_msgs[1].velocity != other_msgs[1].velocity and not ignore_velocity:", ["C17"])
mut("C17-flag-wrong-type", ABS, "        if ignore_key_signature:\n            message_types.remove(MessageType.KEY_SIGNATURE)", "        if ignore_key_signature:\n            message_types.remove(MessageType.TIME_SIGNATURE) if MessageType.TIME_SIGNATURE in message_types else None", ["C17"])
mut("C17-length-check-dropped", ABS, "        if not len(self_pairings) == len(other_pairings):\n            return False\n", "", ["C17"])
mut("C17-key-compare-dropped", ABS, "                if self_msg.key != other_msg.key:\n                    return False", "                pass", ["C17"])
mut("C17-channel-flag-inverted", ABS, "if self_channel != other_channel and not ignore_channel:", "if self_channel != other_channel and ignore_channel:", ["C17"])
mut("C17-denominator-dropped", ABS, "if self_msg.numerator != other_msg.numerator or self_msg.denominator != other_msg.denominator:", "if self_msg.numerator != other_msg.numerator:", ["C17"])

# C07
mut("C07-wait-buffer-dropped-on-skip", REL, "                    # Skip message if note is already open\n                    if len(note_list) != 1:\n                        continue",
    "                    # Skip message if note is already open\n                    if len(note_list) != 1:\n                        wait_buffer = 0\n                        continue", ["C07"])
mut("C07-repeat-test-inverted", REL, "if msg.key != current_key:\n                        current_key = msg.key\n                    else:\n                        continue",
    "if msg.key != current_key:\n                        current_key = msg.key\n                        continue", ["C07"])
mut("C07-inner-off-kept", REL, "                    # Skip message if note not yet closed\n                    if len(note_list) != 0:\n                        continue",
    "                    # Skip message if note not yet closed\n                    if len(note_list) > 1:\n                        continue", ["C07"])
mut("C07-pop-wrong-channel", REL, "                    note_list = open_messages[msg.channel].get(msg.note, [])\n\n                    # Skip message if note was never opened",
    "                    note_list = open_messages[min(open_messages)].get(msg.note, [])\n\n                    # Skip message if note was never opened", ["C07"])
mut("C07-trailing-wait-dropped", REL, "        if wait_buffer > 0:\n            messages_normalized.append(\n                Message(message_type=MessageType.WAIT, channel=default_channel, time=wait_buffer))",
    "        if wait_buffer > 1:\n            messages_normalized.append(\n                Message(message_type=MessageType.WAIT, channel=default_channel, time=wait_buffer))", ["C07"])
mut("C07-ts-compare-numerator-only", REL, "if msg.numerator != current_ts_numerator or msg.denominator != current_ts_denominator:", "if msg.numerator != current_ts_numerator:", [])

# C05
mut("R13-quantise-pitch-only", ABS, "                    open_messages[(msg.channel, msg.note)] = message_to_append.time\n", "                    open_messages[msg.note] = message_to_append.time\n", ["C05"])
mut("R13b-quantise-timings-pitch-only", ABS, "                if (msg.channel, msg.note) not in message_timings \\\n                        or not message_to_append.time < message_timings[(msg.channel, msg.note)][1]:",
    "                if True:", ["C05"])
mut("C05-zero-length-kept", ABS, "                if msg.time - time <= 0:\n                    original_indices_to_remove.extend([j, i])", "                if msg.time - time < 0:\n                    original_indices_to_remove.extend([j, i])", ["C05"])
mut("C05-right-neighbour-max-step", ABS, "positions_right = [positions_left[i] + step_sizes[i] for i in range(0, len(step_sizes))]", "positions_right = [positions_left[i] + max(step_sizes) for i in range(0, len(step_sizes))]", ["C05"])
mut("C05-sort-dropped", ABS, "        self._messages = quantised_messages\n        self.normalise_absolute()\n\n    def quantise_note_lengths", "        self._messages = quantised_messages\n\n    def quantise_note_lengths", ["C05"])
mut("C05-off-not-guarded", ABS, "                        if not position - note_open_timing <= 0:\n                            valid_positions.append(position)", "                        valid_positions.append(position)", ["C05"])
mut("C05-meta-not-quantised", ABS, "            else:\n                valid_positions += possible_positions\n                message_to_append.time = valid_positions[find_minimal_distance(message_original_time, valid_positions)]\n\n            if message_to_append is not None:",
    "            else:\n                pass\n\n            if message_to_append is not None:", ["C05"])
mut("C05-find-min-last", UTL, "        if candidate_distance < distance:", "        if candidate_distance <= distance:", [])

# C06
mut("C06-clash-ge", ABS, "if message_pairing[1].time + possible_correction > possible_next_pairing[0].time:", "if message_pairing[1].time + possible_correction >= possible_next_pairing[0].time:", ["C06"])
mut("C06-dne-filter-dropped", ABS, "if possible_correction > 0 and do_not_extend and note_value in valid_durations:", "if possible_correction > 0 and False and note_value in valid_durations:", ["C06"])
mut("C06-best-from-unfiltered", ABS, "best_fit = valid_durations[find_minimal_distance(current_duration, valid_durations)]", "best_fit = note_values[find_minimal_distance(current_duration, note_values)]", ["C06"])
mut("C06-pairing-not-per-channel", ABS, "                note = message_pairing[0].note\n                current_duration = message_pairing[1].time - message_pairing[0].time\n                valid_durations = copy.copy(note_values)\n\n                # Check if the current note is not the last note, in this case clashes with a next note could exist\n                index = note_occurrences[note].index(message_pairing)\n                if index != len(note_occurrences[note]) - 1:",
    "                note = message_pairing[0].note\n                current_duration = message_pairing[1].time - message_pairing[0].time\n                valid_durations = copy.copy(note_values)\n\n                # Check if the current note is not the last note, in this case clashes with a next note could exist\n                index = note_occurrences[note].index(message_pairing)\n                if index != len(note_occurrences[note]) - 1 and index == 0:", ["C06"])
mut("C06-meta-dropped", ABS, "            if msg.message_type is not MessageType.NOTE_ON and msg.message_type is not MessageType.NOTE_OFF:\n                quantised_messages.append(msg)",
    "            if msg.message_type is not MessageType.NOTE_ON and msg.message_type is not MessageType.NOTE_OFF and msg.message_type is not MessageType.PROGRAM_CHANGE:\n                quantised_messages.append(msg)", ["C06"])
mut("C06-no-invalidate", SEQ, "        self.abs.quantise_note_lengths(note_values, standard_length=standard_length, do_not_extend=do_not_extend)\n        self.invalidate_rel()", "        self.abs.quantise_note_lengths(note_values, standard_length=standard_length, do_not_extend=do_not_extend)", ["C06", "C04"])

# C08
mut("C08-carry-off-by-one", REL, "carry_time = msg.time - remaining_capacity", "carry_time = msg.time - remaining_capacity + (1 if remaining_capacity == 3 else 0)", ["C08"])
mut("C08-restrike-default-velocity", REL, "                                Message(message_type=MessageType.NOTE_ON, channel=value.channel, note=value.note,\n                                        velocity=value.velocity))",
    "                                Message(message_type=MessageType.NOTE_ON, channel=value.channel, note=value.note,\n                                        velocity=127))", ["C08"])
mut("C08-cut-note-off-omitted", REL, "                            current_sequence.add_message(\n                                Message(message_type=MessageType.NOTE_OFF, channel=value.channel, note=value.note))\n",
    "", ["C08"])
mut("C08-remainder-dropped", REL, "        if len(working_memory) > 0:\n            current_sequence._messages.extend([msg for msg in working_memory])", "        if len(working_memory) > 1:\n            current_sequence._messages.extend([msg for msg in working_memory])", ["C08"])
mut("C08-meta-at-boundary-dropped", REL, "                    if remaining_capacity > 0:\n                        current_sequence.add_message(msg)\n                    else:\n                        next_sequence_queue.append(msg)\n\n        # Check if still capacity left",
    "                    if remaining_capacity > 0:\n                        current_sequence.add_message(msg)\n\n        # Check if still capacity left", ["C08"])
mut("C08-open-notes-not-cleared", REL, "                    open_messages.pop((msg.channel, msg.note), None)", "                    pass", ["C08"])
mut("R16b-split-pop-pitch-only", REL, "open_messages.pop((msg.channel, msg.note), None)", "open_messages.pop(msg.note, None)", ["C08"])

# C15
mut("C15-normalise-skipped", SEQ, "        self.abs.merge([seq.abs for seq in sequences])\n        self.invalidate_rel()\n        self.normalise()", "        self.abs.merge([seq.abs for seq in sequences])\n        self.invalidate_rel()", ["C15"])
mut("C15-sort-without-type", ABS, "self._messages.sort(key=lambda x: (x.time, -1 if x.channel is None else x.channel, x.message_type, x.note))", "self._messages.sort(key=lambda x: (x.time, -1 if x.channel is None else x.channel))", ["C15"])
mut("C15-internal-dropped", ABS, "            for msg in [msg for msg in sequence._messages]:\n                self._add_message_unsorted(msg)", "            for msg in [msg for msg in sequence._messages if msg.message_type != MessageType.INTERNAL]:\n                self._add_message_unsorted(msg)", ["C15"])
mut("C15-last-sequence-skipped", ABS, "        for sequence in sequences:\n            for msg in [msg for msg in sequence._messages]:", "        for sequence in sequences[:3]:\n            for msg in [msg for msg in sequence._messages]:", ["C15"])
mut("C15-ts-compare-numerator-only", REL, "if msg.numerator != current_ts_numerator or msg.denominator != current_ts_denominator:", "if msg.numerator != current_ts_numerator:", ["C15"])
mut("C15-abs-wait-channel-break", ABS, "            if time > current_point_in_time:", "            if time > current_point_in_time + 1:", ["C15", "C04"])

# C10
mut("C10-padding-skipped", BAR, "            self.sequence.pad(int(", "            self.sequence.pad(0 * int(", ["C10"])
mut("C10-uniformity-numerator-only", BAR, "if not all(msg.numerator == self.time_signature_numerator and msg.denominator == self.time_signature_denominator", "if not all(msg.numerator == self.time_signature_numerator", ["C10"])
mut("C10-signature-at-end", BAR, "                                                   denominator=self.time_signature_denominator), index=0)", "                                                   denominator=self.time_signature_denominator), index=None)", ["C10"])
mut("C10-too-many-check-dropped", BAR, "        if len(time_signatures) > 1:\n            raise BarException(\"Too many time signatures in a bar\")\n", "", [])
mut("C10-old-signature-kept", BAR, "        self.sequence.overwrite_relative_messages([msg for msg in self.sequence.messages_rel() if\n                                                   msg.message_type != MessageType.TIME_SIGNATURE])\n", "", ["C10"])
mut("C10-copy-shares-sequence", BAR, "cpy = self.__class__(self.sequence.copy(),", "cpy = self.__class__(self.sequence,", ["C10", "C16"])
mut("C10-copy-drops-key", BAR, "self.time_signature_numerator, self.time_signature_denominator, self.key_signature)", "self.time_signature_numerator, self.time_signature_denominator)", ["C10", "C16"])
mut("C10-capacity-ge", BAR, "if self.sequence.get_sequence_duration_relation() * PPQN > self.time_signature_numerator", "if self.sequence.get_sequence_duration_relation() * PPQN >= self.time_signature_numerator", ["C09"])

# C09
mut("C09-ts-strictly-before", SEQ, "time_signature = next((timing for timing in time_signature_timings if timing[0] <= current_point_in_time)", "time_signature = next((timing for timing in time_signature_timings if timing[0] < current_point_in_time)", ["C09"])
mut("C09-ts-popped-twice", SEQ, "                time_signature_timings.pop(0)\n", "                time_signature_timings.pop(0)\n                if len(time_signature_timings) > 1:\n                    time_signature_timings.pop(0)\n", ["C09"])
mut("C09-placeholder-omitted", SEQ, "                    if len(split_up) == 0:\n                        split_up.append(Sequence())\n                    sequences[i] = Sequence()", "                    if len(split_up) == 0:\n                        continue\n                    sequences[i] = Sequence()", ["C09"])
mut("C09-key-not-carried", SEQ, "            if key_signature is not None:\n                key_signature_timings.pop(0)\n                current_key = key_signature[1].key", "            current_key = None\n            if key_signature is not None:\n                key_signature_timings.pop(0)\n                current_key = key_signature[1].key", ["C09"])
mut("C09-key-strictly-before", SEQ, "key_signature = next((timing for timing in key_signature_timings if timing[0] <= current_point_in_time)", "key_signature = next((timing for timing in key_signature_timings if timing[0] < current_point_in_time)", ["C09"])
mut("C09-requant-extends", SEQ, "sequence_to_add.quantise_note_lengths(do_not_extend=True)", "sequence_to_add.quantise_note_lengths(do_not_extend=False)", ["C09"])
mut("C09-requant-always", SEQ, "                if quantise_note_lengths:\n                    sequence_to_add", "                if True:\n                    sequence_to_add", ["C09"])
mut("C09-default-3-4", SEQ, "        current_ts_numerator = 4\n        current_ts_denominator = 4\n        current_key = None", "        current_ts_numerator = 3\n        current_ts_denominator = 4\n        current_key = None", ["C09"])

# C01 / tokeniser
mut("C01-cur-time-bar-not-reset", TOK, "                    if insert_bar_token:\n                        tokens.append(TokenisationPrefixes.BAR.value)\n                    cur_time_bar = 0\n", "                    if insert_bar_token:\n                        tokens.append(TokenisationPrefixes.BAR.value)\n", ["C01"])
mut("C01-greedy-rest-gt", TOK, "rest_value = next(step_size for step_size in reversed(self.step_sizes) if nxt_rest >= step_size)", "rest_value = next(step_size for step_size in reversed(self.step_sizes) if nxt_rest > step_size or step_size == self.step_sizes[0])", ["C01"])
mut("C01-detok-bar-adds-total", TOK, "                    cur_time += cur_bar_capacity_remaining\n                    cur_time_bar = 0\n                    cur_bar_capacity_remaining = cur_bar_capacity_total\n\n                    for sequence in sequences:", "                    cur_time += cur_bar_capacity_total\n                    cur_time_bar = 0\n                    cur_bar_capacity_remaining = cur_bar_capacity_total\n\n                    for sequence in sequences:", ["C01"])
mut("C01-value-format-03", TOK, '                    token += f"{TokenisationPrefixes.VALUE.value}_{msg_value:02}-"', '                    token += f"{TokenisationPrefixes.VALUE.value}_{msg_value:03}-"', ["C01", "C02"])
mut("C01-running-wrong-field", TOK, "if not self.flag_fuse_value and (msg_value != prv_value or not self.flag_running_values):", "if not self.flag_fuse_value and (msg_value != prv_velocity or not self.flag_running_values):", ["C01"])
mut("C01-running-velocity-wrong-field", TOK, "if not self.flag_fuse_velocity and (msg_velocity != prv_velocity or not self.flag_running_values):", "if not self.flag_fuse_velocity and (msg_velocity != prv_value or not self.flag_running_values):", ["C01"])
mut("C01-bin-off-by-one", TOK, "msg_velocity = self.velocity_bins[bin_velocity(event_pairing[0].velocity, self.velocity_bins)]", "msg_velocity = self.velocity_bins[min(len(self.velocity_bins) - 1, bin_velocity(event_pairing[0].velocity, self.velocity_bins) + 1)]", ["C01"])
mut("C01-running-track-not-updated", TOK, "                prv_track = msg_channel\n                prv_value = msg_value", "                prv_value = msg_value", [])  # equivalent: only redundant trk tokens
mut("C01-detok-default-value", TOK, "        prv_value = 24\n        prv_velocity = 127\n\n        for token in tokens:\n            token_parts = sorted(self._split_token(token),\n                                 key=lambda part: (\n                                     self.sort_order.index(part[0]) if part[0] in self.sort_order else -1))\n            main_parts = [part[0] for part in token_parts]\n\n            for i, main_part", "        prv_value = 24\n        prv_velocity = 127\n\n        for token in tokens:\n            token_parts = sorted(self._split_token(token),\n                                 key=lambda part: (\n                                     self.sort_order.index(part[0]) if part[0] in self.sort_order else -1), reverse=True)\n            main_parts = [part[0] for part in token_parts]\n\n            for i, main_part", ["C01"])
mut("C01-ts-capacity-not-reset", TOK, "                cur_bar_capacity_total = int(\n                    self.ppqn * 4 * cur_time_signature_numerator / cur_time_signature_denominator)\n                cur_bar_capacity_remaining = cur_bar_capacity_total\n\n                tokens.append(", "                cur_bar_capacity_total = int(\n                    self.ppqn * 4 * cur_time_signature_numerator / cur_time_signature_denominator)\n\n                tokens.append(", ["C01"])
mut("C01-pitch-range-exclusive", TOK, "if not (self.pitch_range[0] <= msg_note <= self.pitch_range[1]):", "if not (self.pitch_range[0] <= msg_note < self.pitch_range[1]):", ["C01"])
mut("C01-rest-max-step-ge", TOK, "                if nxt_rest > self.step_sizes[-1]:\n                    rest_value = self.step_sizes[-1]", "                if nxt_rest > self.step_sizes[-1] + 1:\n                    rest_value = self.step_sizes[-1]", [])

# C02
mut("C02-vocab-pitch-exclusive", TOK, "combinations.append([pitch for pitch in range(self.pitch_range[0], self.pitch_range[1] + 1)])", "combinations.append([pitch for pitch in range(self.pitch_range[0], self.pitch_range[1])])", ["C02"])
mut("C02-vocab-value-format", TOK, '                self.dictionary[f"{TokenisationPrefixes.VALUE.value}_{note_value:02}"] = self.dictionary_size', '                self.dictionary[f"{TokenisationPrefixes.VALUE.value}_{note_value:03}"] = self.dictionary_size', ["C02"])
mut("C02-vocab-velocity-tokens-omitted", TOK, "            for velocity_bin in self.velocity_bins:\n                self.dictionary[f\"{TokenisationPrefixes.VELOCITY.value}_{velocity_bin:03}\"] = self.dictionary_size\n                self._dictionary_size += 1", "            for velocity_bin in self.velocity_bins[1:]:\n                self.dictionary[f\"{TokenisationPrefixes.VELOCITY.value}_{velocity_bin:03}\"] = self.dictionary_size\n                self._dictionary_size += 1", ["C02"])
mut("C02-id-counter-not-incremented", TOK, '        self.dictionary[TokenisationPrefixes.BAR.value] = 3\n        self._dictionary_size += 1', '        self.dictionary[TokenisationPrefixes.BAR.value] = 3', ["C02"])
mut("C02-tsg-range-exclusive", TOK, "for time_signature in range(self.time_signature_range[0], self.time_signature_range[1] + 1):", "for time_signature in range(self.time_signature_range[0], self.time_signature_range[1]):", ["C02"])
mut("C02-rest-token-format", TOK, '                tokens.append(f"{TokenisationPrefixes.REST.value}_{rest_value:02}")', '                tokens.append(f"{TokenisationPrefixes.REST.value}_{rest_value}")', ["C02", "C01"])
mut("C02-inverse-stale", TOK, "        self.inverse_dictionary = {v: k for k, v in self.dictionary.items()}", "        self.inverse_dictionary = {v: k for k, v in list(self.dictionary.items())[:-1]}", ["C02"])
mut("C02-detok-rejects-pad", TOK, "                if main_part == TokenisationPrefixes.PAD.value:\n                    continue\n                elif main_part == TokenisationPrefixes.START.value:", "                if main_part == TokenisationPrefixes.START.value:", ["C02"])

# C03
mut("C03-prv-shift-zero", TOK, '        prv_shift = state_dict.get("cur_time", 0)', '        prv_shift = 0', ["C03"])
mut("C03-cur-time-not-written-back", TOK, '        state_dict["cur_time"] = cur_time\n', '', [])  # equivalent: tokens do not depend on the absolute clock
mut("C03-closing-rests-omitted", TOK, "        if (cur_time_bar > 0 or cur_bar_has_notes) and cur_bar_capacity_remaining > 0:\n            _apply_rest(cur_bar_capacity_remaining)", "        if (cur_time_bar > 0 or cur_bar_has_notes) and cur_bar_capacity_remaining > 0 and state_dict.get('cur_time') is None:\n            _apply_rest(cur_bar_capacity_remaining)", ["C03"])
mut("C03-closing-without-bar-token", TOK, "        if (cur_time_bar > 0 or cur_bar_has_notes) and cur_bar_capacity_remaining > 0:\n            _apply_rest(cur_bar_capacity_remaining)", "        if (cur_time_bar > 0 or cur_bar_has_notes) and cur_bar_capacity_remaining > 0:\n            insert_bar_token = \"cur_time\" not in state_dict\n            _apply_rest(cur_bar_capacity_remaining)", ["C03"])
mut("C03-state-signature-not-carried-detok-visible", TOK, '        cur_time = state_dict.get("cur_time", 0)\n', '        cur_time = state_dict.get("cur_time", 0) + (1 if state_dict.get("prv_value", -1) == 12 else 0)\n', ["C03"])

# C19
mut("C19-info-bar-adds-total", TOK, "            if main_part == TokenisationPrefixes.BAR.value:\n                cur_time += cur_bar_capacity_remaining", "            if main_part == TokenisationPrefixes.BAR.value:\n                cur_time += cur_bar_capacity_total", ["C19"])
mut("C19-info-rest-capacity", TOK, "                cur_time_bar += int(token_parts[0][1])\n                cur_bar_capacity_remaining -= int(token_parts[0][1])", "                cur_time_bar += int(token_parts[0][1])", ["C19"])
mut("C19-info-midbar-signature-applied", TOK, "            elif main_part == TokenisationPrefixes.TIME_SIGNATURE.value:\n                if cur_time_bar > 0:\n                    LOGGER.info(\n                        f\"Skipping time signature change mid-bar at time {cur_time} (bar time {cur_time_bar})\")\n                else:\n                    cur_time_signature_numerator = int(token_parts[0][1])", "            elif main_part == TokenisationPrefixes.TIME_SIGNATURE.value:\n                if False:\n                    pass\n                else:\n                    cur_time_signature_numerator = int(token_parts[0][1])", ["C19"])
mut("C19-info-time-after-update", TOK, "            info_pos.append(cur_pos)\n            info_time.append(cur_time)\n            info_time_bar.append(cur_time_bar)\n\n            if main_part == TokenisationPrefixes.BAR.value:\n                cur_time += cur_bar_capacity_remaining\n                cur_time_bar = 0", "            info_pos.append(cur_pos)\n            info_time_bar.append(cur_time_bar)\n\n            if main_part == TokenisationPrefixes.BAR.value:\n                cur_time += cur_bar_capacity_remaining\n                cur_time_bar = 0", [])
mut("C19-info-pitch-from-first-part", TOK, "                pitch_part = next(part for part in token_parts if part[0] == TokenisationPrefixes.PITCH.value)\n                note_pitch = int(pitch_part[1])", "                pitch_part = token_parts[0]\n                note_pitch = int(pitch_part[1])", ["C19"])
mut("C19-cof-position-shift", MTH, "return CircleOfFifths.circle_of_fifths_order.index(Note(note_val % 12)) - 5", "return CircleOfFifths.circle_of_fifths_order.index(Note(note_val % 12)) - 6", ["C19"])
mut("C19-detok-rest-capacity", TOK, "                    cur_time_bar += int(token_parts[i][1])\n                    cur_bar_capacity_remaining -= int(token_parts[i][1])", "                    cur_time_bar += int(token_parts[i][1])", ["C19", "C01"])
mut("C19-info-bar-time-not-reset", TOK, "                cur_time += cur_bar_capacity_remaining\n                cur_time_bar = 0\n                cur_bar_capacity_remaining = cur_bar_capacity_total\n\n                if not flag_impute_values:", "                cur_time += cur_bar_capacity_remaining\n                cur_bar_capacity_remaining = cur_bar_capacity_total\n\n                if not flag_impute_values:", ["C19"])

# C11
mut("C11-quantise-true-division", ABS, "positions_left = [(message_original_time // step_size) * step_size for step_size in step_sizes]", "positions_left = [int(message_original_time / step_size) * step_size * 1.0 for step_size in step_sizes]", ["C11"])
mut("C11-internal-cap-not-int", REL, "Message(message_type=MessageType.INTERNAL, channel=default_channel, time=int(current_point_in_time)))", "Message(message_type=MessageType.INTERNAL, channel=default_channel, time=current_point_in_time / 1))", ["C11"])
mut("C11-length-bar-not-int", SEQ, "length_bar = int(PPQN * (current_ts_numerator / (current_ts_denominator / 4)))", "length_bar = PPQN * (current_ts_numerator / (current_ts_denominator / 4))", ["C11"])
mut("C11-scale-float", REL, "                    msg.time = msg.time * factor\n        # Handle", "                    msg.time = msg.time * float(factor)\n        # Handle", ["C11"])  # integral floats are C11's business; C18 compares numerically
mut("C11-cutoff-float", ABS, "message_pairing[1].time = message_pairing[0].time + reduced_length", "message_pairing[1].time = message_pairing[0].time + reduced_length * 1.0", ["C11"])
mut("C11-detok-capacity-float", TOK, "        cur_bar_capacity_total = int(self.ppqn * 4 * cur_time_signature_numerator / cur_time_signature_denominator)\n        cur_bar_capacity_remaining = cur_bar_capacity_total\n        prv_track = 0", "        cur_bar_capacity_total = self.ppqn * 4 * cur_time_signature_numerator / cur_time_signature_denominator\n        cur_bar_capacity_remaining = cur_bar_capacity_total\n        prv_track = 0", ["C11"])
mut("C11-pad-float", REL, "Message(message_type=MessageType.WAIT, channel=default_channel, time=padding_length - current_length))", "Message(message_type=MessageType.WAIT, channel=default_channel, time=(padding_length - current_length) / 1))", ["C11"])

# C12
mut("C12-time-buffer-not-reset-after-ts", MTR, "                track.append(mido.MetaMessage(\"time_signature\", numerator=msg.numerator, denominator=msg.denominator,\n                                              time=int(time_buffer)))\n                time_buffer = 0", "                track.append(mido.MetaMessage(\"time_signature\", numerator=msg.numerator, denominator=msg.denominator,\n                                              time=int(time_buffer)))", ["C12"])
mut("C12-reset-in-wait-branch", MTR, "            elif msg.message_type == MessageType.WAIT:\n                pass", "            elif msg.message_type == MessageType.WAIT:\n                time_buffer = msg.time", ["C12"])
mut("C12-key-table-entry", MTH, '"Cb": Key.C_B,\n', '"Cb": Key.B,\n', ["C12"])
mut("C12-velocity-default-always", MTR, "velocity=msg.velocity if msg.velocity is not None else 127,", "velocity=127 if msg.velocity is not None else 127,", ["C12"])
mut("C12-meta-routing-index-0", MF, "        meta_track = merged_sequences[meta_track_index]", "        meta_track = merged_sequences[0]", ["C12", "C13"])
mut("C12-default-ts-missing", MF, "        if not any(timing_tuple[0] == 0 for timing_tuple in", "        if False and not any(timing_tuple[0] == 0 for timing_tuple in", ["C12"])
mut("C12-cc-steals-delta", MTR, "            if hasattr(msg, \"time\") and msg.time is not None:\n                time_buffer += msg.time", "            if hasattr(msg, \"time\") and msg.time is not None and msg.message_type != MessageType.PROGRAM_CHANGE:\n                time_buffer += msg.time\n            if msg.message_type == MessageType.PROGRAM_CHANGE:\n                time_buffer = 0", ["C12"])
mut("C12-note-off-as-note-on", MTR, 'track.append(mido.Message("note_off", note=msg.note, velocity=0, time=int(time_buffer)))', 'track.append(mido.Message("note_on", note=msg.note, velocity=1, time=int(time_buffer)))', ["C12"])

# C13
mut("C13-round-each-delta", MF, "                current_point_in_time += (msg.time * scaling_factor)\n                rounded_point_in_time = round(current_point_in_time)", "                current_point_in_time += round(msg.time * scaling_factor)\n                rounded_point_in_time = round(current_point_in_time)", ["C13"])
mut("C13-int-instead-of-round", MF, "rounded_point_in_time = round(current_point_in_time)", "rounded_point_in_time = int(current_point_in_time)", ["C13"])
mut("C13-first-group-always", MF, "                group_indices = next(array for array in track_indices if i in array)", "                group_indices = next(array for array in track_indices if i in array or True)", ["C13"])
mut("C13-meta-only-notes-kept", MF, "                if msg.message_type == MessageType.NOTE_ON and any(i in indices for indices in track_indices):", "                if msg.message_type == MessageType.NOTE_ON:", ["C13"])
mut("C13-velocity-zero-note-on", MM, '        if mido_message.type == "note_on" and mido_message.velocity > 0:', '        if mido_message.type == "note_on" and mido_message.velocity >= 0:', ["C13"])
mut("C13-scaling-int-division", MF, "        scaling_factor = PPQN / self.PPQN", "        scaling_factor = (PPQN // self.PPQN) if PPQN >= self.PPQN else PPQN / self.PPQN", ["C13"])
mut("C13-ignored-meta-delta-lost", MF, "                current_point_in_time += (msg.time * scaling_factor)", "                current_point_in_time += (msg.time * scaling_factor) if msg.message_type is not None else 0", ["C13"])
mut("C13-ungrouped-meta-track-skipped", MF, "            if not any(i in indices for indices in track_indices) and i not in meta_track_indices:\n                continue", "            if not any(i in indices for indices in track_indices):\n                continue", ["C13"])
mut("C13-key-minor-map", MTH, '"Am": Key.C, "Em": Key.G,', '"Am": Key.A, "Em": Key.G,', ["C13"])

# C16
mut("C16-abstract-copy-shallow", ABSTRACT, "cpy = self.__class__(messages=[msg.copy() for msg in self._messages])", "cpy = self.__class__(messages=[msg for msg in self._messages])", ["C16"])
mut("C16-message-copy-omits-velocity", MSG, "            velocity=self.velocity,\n            control=self.control,\n            program=self.program,\n            numerator=self.numerator,\n            denominator=self.denominator,\n            key=self.key\n        )\n        return cpy", "            control=self.control,\n            program=self.program,\n            numerator=self.numerator,\n            denominator=self.denominator,\n            key=self.key\n        )\n        return cpy", ["C16"])
mut("C16-sequence-copy-stale-view", SEQ, "        cpy_abs = None\n        if not self._abs_stale:\n            cpy_abs = self.abs.copy()", "        cpy_abs = None\n        if self._abs is not None if hasattr(self, '_abs') else False:\n            cpy_abs = self._abs.copy()", ["C16", "C04"])
mut("C16-track-copy-shares-bars", TRK, "cpy = self.__class__([bar.copy() for bar in self.bars], self.name)", "cpy = self.__class__([bar for bar in self.bars], self.name)", ["C16"])
mut("C16-composition-copy-shares-tracks", CMP, "cpy = self.__class__([track.copy() for track in self.tracks])", "cpy = self.__class__([track for track in self.tracks])", ["C16"])
mut("C16-split-remainder-shared", REL, "            current_sequence._messages.extend([msg for msg in working_memory])", "            current_sequence._messages.extend([msg for msg in self._messages[len(self._messages) - len(working_memory):]])", ["C16"])

# C04
mut("C04-cutoff-no-invalidate", SEQ, "        self.abs.cutoff(maximum_length=maximum_length, reduced_length=reduced_length)\n        self.invalidate_rel()", "        self.abs.cutoff(maximum_length=maximum_length, reduced_length=reduced_length)", ["C04"])
mut("C04-messages-abs-no-finally", SEQ, "        try:\n            for message in self.abs._messages:\n                self.invalidate_rel()\n                yield message\n        finally:\n            self.invalidate_rel()", "        for message in self.abs._messages:\n            yield message\n            self.invalidate_rel()", ["C04"])
mut("C04-pad-uses-private-rel", SEQ, "        self.rel.pad(padding_length)\n        self.invalidate_abs()", "        (self._rel if getattr(self, '_rel', None) is not None else self.rel).pad(padding_length)\n        self.invalidate_abs()", ["C04"])
mut("C04-conversion-drops-trailing-wait", REL, "        if not cap_message_exists:\n            absolute_sequence.add_message(", "        if not cap_message_exists and len(self._messages) > 3:\n            absolute_sequence.add_message(", ["C04"])
mut("C04-add-relative-no-invalidate", SEQ, "        self.rel.add_message(msg, index=index)\n        self.invalidate_abs()", "        self.rel.add_message(msg, index=index)", ["C04"])
mut("C04-refresh-wrong-direction", SEQ, "        if self._rel_stale:\n            self._rel = self._abs.to_relative_sequence()\n            self._rel_stale = False\n\n    # Basic Methods", "        if self._rel_stale:\n            self._rel_stale = False\n\n    # Basic Methods", ["C04"])
mut("C04-normalise-no-invalidate", SEQ, "        self.rel.normalise_relative()\n        self.invalidate_abs()", "        self.rel.normalise_relative()", ["C04"])
mut("C04-transpose-no-invalidate", SEQ, "        shifted = self.rel.transpose(transpose_by)\n        self.invalidate_abs()", "        shifted = self.rel.transpose(transpose_by)", ["C04"])
mut("C04-to-relative-wait-channel-time", ABS, "Message(message_type=MessageType.WAIT, channel=msg.channel, time=time - current_point_in_time))\n                current_point_in_time = time", "Message(message_type=MessageType.WAIT, channel=msg.channel, time=time - current_point_in_time))", ["C04"])
mut("C04-insort-before-equal", UTL, "        if message.time < collection[mid].time:", "        if message.time <= collection[mid].time:", [])
mut("C04-messages-rel-invalidate-only-at-end", SEQ, "            for message in self.rel._messages:\n                self.invalidate_abs()\n                yield message", "            for message in self.rel._messages:\n                yield message", [])


def run(cmd, env):
    import signal
    p = subprocess.Popen(cmd, cwd=ROOT, env=env, stdout=subprocess.PIPE, stderr=subprocess.STDOUT, text=True, start_new_session=True)
    try:
        outp, _ = p.communicate(timeout=float(os.environ.get("MUT_TIMEOUT", "400")))
    except subprocess.TimeoutExpired:
        os.killpg(p.pid, signal.SIGKILL)
        p.wait()
        return 3, "TIMEOUT"
    return p.returncode, outp


def main():
    ap = argparse.ArgumentParser()
    ap.add_argument("-p", "--prop", default=None)
    ap.add_argument("-m", "--mutant", default=None)
    ap.add_argument("--seeds", default="1,2,3")
    ap.add_argument("--tier", default="quick")
    ap.add_argument("--list", action="store_true")
    ap.add_argument("--all-props", action="store_true", help="run every property's check against each mutant")
    ap.add_argument("--save-corpus", action="store_true", help="copy the shrunk failing case of the first seed to corpus/<ID>/<mutant>.json")
    a = ap.parse_args()
    sel = [m for m in M if (a.mutant is None or a.mutant in m[0]) and (a.prop is None or a.prop in m[4])]
    if a.list:
        for m in sel:
            print(m[0], m[4])
        return
    summary = []
    for name, file, old, new, props in sel:
        scratch = f"/tmp/mut-{os.getpid()}-{name}"
        shutil.rmtree(scratch, ignore_errors=True)
        os.makedirs(scratch)
        shutil.copytree(os.path.join(REPO, "scoda"), os.path.join(scratch, "scoda"),
                        ignore=shutil.ignore_patterns("__pycache__"))
        path = os.path.join(scratch, file)
        src = open(path).read()
        if src.count(old) != 1:
            print(f"!! {name}: pattern occurs {src.count(old)} times in {file}")
            summary.append((name, "PATTERN", ""))
            shutil.rmtree(scratch, ignore_errors=True)
            continue
        open(path, "w").write(src.replace(old, new))
        env = dict(os.environ, VERIF_REPO=scratch)
        for pid in ([a.prop] if a.prop else props):
            res = []
            for seed in a.seeds.split(","):
                env["VERIF_SEED"] = seed
                rc, outp = run(["./check", pid, a.tier], env)
                viol = [l for l in outp.splitlines() if l.startswith("  violation")]
                if a.save_corpus and rc == 1:
                    reps = [l.split("replay=")[1].strip() for l in outp.splitlines() if l.startswith("VIOLATION")]
                    dst = os.path.join(ROOT, "corpus", pid)
                    os.makedirs(dst, exist_ok=True)
                    if reps and not os.path.exists(os.path.join(dst, name + ".json")):
                        data = json.load(open(os.path.join(ROOT, reps[0])))
                        data["origin"] = f"shrunk failing case found by ./check {pid} {a.tier} (seed {seed}) against mutant {name}; passes on the repaired tree"
                        json.dump(data, open(os.path.join(dst, name + ".json"), "w"), indent=1)
                res.append((rc, viol[0][:160] if viol else outp.strip().splitlines()[-1][:160] if outp.strip() else ""))
            verdict = "CAUGHT" if all(r[0] == 1 for r in res) else ("PARTIAL" if any(r[0] == 1 for r in res) else "MISSED")
            if any(r[0] == 2 for r in res):
                verdict += "+HARNESS-ERROR"
            print(f"{verdict:8s} {name:32s} {pid}  rc={[r[0] for r in res]}  {res[0][1]}", flush=True)
            summary.append((name, pid, verdict))
        shutil.rmtree(scratch, ignore_errors=True)
    bad = [s for s in summary if s[2] != "CAUGHT"]
    print(f"--- {len(summary) - len(bad)}/{len(summary)} caught")
    # evidence files were overwritten by runs against mutants: callers re-run the real check afterwards
    sys.exit(1 if bad else 0)


if __name__ == "__main__":
    main()
