#!/bin/bash
# run every registered check's quick (or given) tier once, print a summary line per property
tier=${1:-quick}
cd "$(dirname "$0")/.."
fail=0
for p in $(python3 -c "import json; print(' '.join(c['property_id'] for c in json.load(open('MANIFEST.json'))['checks']))"); do
  s=$(date +%s)
  out=$(./check $p $tier 2>&1); rc=$?
  echo "$p rc=$rc $(( $(date +%s) - s ))s  $(echo "$out" | head -1 | cut -c1-120)"
  if [ $rc -ne 0 ]; then fail=1; echo "$out" | grep -E "VIOLATION|violation|harness" | head -5 | cut -c1-300; fi
  echo "$out" | grep "^KNOWN-FINDING" | cut -c1-160
done
exit $fail
