#!/usr/bin/env python3
"""Confirm and evaluate seeded changes (independent breaking changes written by sub-agents).

  tools/seeded.py confirm <src-dir> <name> <property>   src-dir holds patch.diff + demo.py (+ NOTE.md)
        creates a scratch worktree of /repo HEAD, checks: demo passes without the patch, fails with it; optionally
        (--suite) runs the pinned suite with the patch; then stores /verif/seeded/<name>/{patch.diff,demo.py,NOTE.md,meta.json}
  tools/seeded.py run [name ...] [--props C05,C07] [--seeds 1,2,3] [--all-props]
        for each stored change: copy /repo's scoda, apply the patch, run the quick tier of its property (and others) with
        VERIF_REPO pointing at the copy; prints CAUGHT / MISSED and updates meta.json["detection"].
Scratch copies live under /tmp and are removed afterwards; /repo is never modified.
"""
import argparse
import json
import os
import shutil
import signal
import subprocess
import sys
import tempfile

ROOT = os.path.dirname(os.path.dirname(os.path.abspath(__file__)))
SEEDED = os.path.join(ROOT, "seeded")
PY = "/venv/bin/python"


def sh(cmd, cwd=None, env=None, timeout=None):
    p = subprocess.Popen(cmd, cwd=cwd, env=env, stdout=subprocess.PIPE, stderr=subprocess.STDOUT, text=True, start_new_session=True)
    try:
        out, _ = p.communicate(timeout=timeout)
    except subprocess.TimeoutExpired:
        os.killpg(p.pid, signal.SIGKILL)
        p.wait()
        return 124, "TIMEOUT"
    return p.returncode, out


def scratch_with_patch(patch):
    d = tempfile.mkdtemp(prefix="seeded-", dir="/tmp")
    shutil.copytree("/repo/scoda", os.path.join(d, "scoda"), ignore=shutil.ignore_patterns("__pycache__"))
    rc, out = sh(["patch", "-p1", "--no-backup-if-mismatch", "-i", patch], cwd=d)
    if rc != 0:
        shutil.rmtree(d, ignore_errors=True)
        raise RuntimeError("patch does not apply to /repo HEAD:\n" + out)
    return d


def confirm(a):
    src = a.src
    patch = os.path.join(src, "patch.diff")
    demo = os.path.join(src, "demo.py")
    assert os.path.exists(patch) and os.path.exists(demo), "need patch.diff and demo.py"
    env = dict(os.environ, MPLBACKEND="Agg")
    clean = tempfile.mkdtemp(prefix="seeded-clean-", dir="/tmp")
    shutil.copytree("/repo/scoda", os.path.join(clean, "scoda"), ignore=shutil.ignore_patterns("__pycache__"))
    env["PYTHONPATH"] = clean
    shutil.copy(demo, os.path.join(clean, "demo.py"))     # demos may put their own directory first on sys.path
    rc0, out0 = sh([PY, "demo.py"], cwd=clean, env=env, timeout=600)
    shutil.rmtree(clean, ignore_errors=True)
    d = scratch_with_patch(patch)
    env["PYTHONPATH"] = d
    shutil.copy(demo, os.path.join(d, "demo.py"))
    rc1, out1 = sh([PY, "demo.py"], cwd=d, env=env, timeout=600)
    shutil.rmtree(d, ignore_errors=True)
    print(f"demo without patch: rc={rc0}  {out0.strip().splitlines()[-1][:200] if out0.strip() else ''}")
    print(f"demo with patch:    rc={rc1}  {out1.strip().splitlines()[-1][:200] if out1.strip() else ''}")
    ok = rc0 == 0 and rc1 != 0
    suite = None
    if a.suite and ok:
        wt = tempfile.mkdtemp(prefix="seeded-wt-", dir="/tmp")
        os.rmdir(wt)
        sh(["git", "-C", "/repo", "worktree", "add", "--detach", "-f", wt, "HEAD"])
        rc, out = sh(["git", "-C", wt, "apply", patch])
        rc, out = sh([PY, "-m", "pytest", "-q", "-p", "no:cacheprovider", "--timeout=900"], cwd=wt, env=dict(os.environ, MPLBACKEND="Agg"), timeout=3000)
        suite = out.strip().splitlines()[-1] if out.strip() else "no output"
        sh(["git", "-C", "/repo", "worktree", "remove", "--force", wt])
        print("suite with patch:", suite)
        ok = ok and " passed" in suite and "failed" not in suite
    if not ok:
        print("NOT CONFIRMED")
        return 1
    dst = os.path.join(SEEDED, a.name)
    os.makedirs(dst, exist_ok=True)
    shutil.copy(patch, os.path.join(dst, "patch.diff"))
    shutil.copy(demo, os.path.join(dst, "demo.py"))
    if os.path.exists(os.path.join(src, "NOTE.md")):
        shutil.copy(os.path.join(src, "NOTE.md"), os.path.join(dst, "NOTE.md"))
    meta_path = os.path.join(dst, "meta.json")
    meta = json.load(open(meta_path)) if os.path.exists(meta_path) else {}
    meta.update(dict(name=a.name, property=a.property, origin=a.origin,
                     needs=a.needs or meta.get("needs", "see NOTE.md"),
                     confirmed=dict(demo_without_patch=f"exit {rc0}", demo_with_patch=f"exit {rc1}", suite_with_patch=suite,
                                    how="tools/seeded.py confirm: scratch copy of /repo HEAD's scoda with the patch applied; "
                                        "demo run with PYTHONPATH=<copy>; suite run in a scratch git worktree with the patch")))
    json.dump(meta, open(meta_path, "w"), indent=1)
    print("stored", dst)
    return 0


def run(a):
    names = a.names or sorted(os.listdir(SEEDED))
    rows = []
    for name in names:
        dst = os.path.join(SEEDED, name)
        meta_path = os.path.join(dst, "meta.json")
        if not os.path.exists(meta_path):
            continue
        meta = json.load(open(meta_path))
        try:
            d = scratch_with_patch(os.path.join(dst, "patch.diff"))
        except RuntimeError as e:
            print(name, "PATCH-DOES-NOT-APPLY", str(e)[:200])
            continue
        props = a.props.split(",") if a.props else [meta["property"]]
        if a.all_props:
            props = [f"C{i:02d}" for i in range(1, 21)]
        det = meta.setdefault("detection", {})
        for pid in props:
            res = []
            for seed in a.seeds.split(","):
                env = dict(os.environ, VERIF_REPO=d, VERIF_SEED=seed)
                rc, out = sh(["./check", pid, a.tier], cwd=ROOT, env=env, timeout=float(a.timeout))
                viol = [l.strip() for l in out.splitlines() if l.startswith("  violation")]
                res.append((rc, viol[0][:300] if viol else ""))
            verdict = "CAUGHT" if all(r[0] == 1 for r in res) else "PARTIAL" if any(r[0] == 1 for r in res) else "MISSED"
            if any(r[0] not in (0, 1) for r in res):
                verdict += "+rc" + ",".join(str(r[0]) for r in res)
            first = next((r[1] for r in res if r[1]), "")
            print(f"{verdict:8s} {name:28s} {pid} rc={[r[0] for r in res]} {first[:170]}", flush=True)
            det[pid] = dict(verdict=verdict, tier=a.tier, seeds=a.seeds, exit_codes=[r[0] for r in res], first_violation=first)
            rows.append((name, pid, verdict))
        json.dump(meta, open(meta_path, "w"), indent=1)
        shutil.rmtree(d, ignore_errors=True)
    missed = [r for r in rows if not r[2].startswith("CAUGHT")]
    print(f"--- {len(rows) - len(missed)}/{len(rows)} caught")
    return 0


def main():
    ap = argparse.ArgumentParser()
    sub = ap.add_subparsers(dest="cmd", required=True)
    c = sub.add_parser("confirm")
    c.add_argument("src")
    c.add_argument("name")
    c.add_argument("property")
    c.add_argument("--suite", action="store_true")
    c.add_argument("--needs", default=None)
    c.add_argument("--origin", default="sub-agent given only the property text and a scratch worktree")
    r = sub.add_parser("run")
    r.add_argument("names", nargs="*")
    r.add_argument("--props", default=None)
    r.add_argument("--all-props", action="store_true")
    r.add_argument("--seeds", default="1,2,3")
    r.add_argument("--tier", default="quick")
    r.add_argument("--timeout", default="600")
    a = ap.parse_args()
    sys.exit(confirm(a) if a.cmd == "confirm" else run(a))


if __name__ == "__main__":
    main()
