#!/usr/bin/env python3
"""Rewrites the seeded-change table in DESIGN.md (between the SEEDED-TABLE markers) from seeded/*/meta.json."""
import json, os, re
ROOT = os.path.dirname(os.path.dirname(os.path.abspath(__file__)))
rows = []
for name in sorted(os.listdir(os.path.join(ROOT, "seeded"))):
    p = os.path.join(ROOT, "seeded", name, "meta.json")
    if not os.path.exists(p):
        continue
    m = json.load(open(p))
    det = m.get("detection", {}).get(m["property"], {})
    verdict = det.get("verdict", "not run")
    codes = det.get("exit_codes", [])
    first = (det.get("first_violation", "") or "").replace("violation ", "").split(":")[0][:60]
    hist = "yes — " + m["history"].split(":")[0][:110] if m.get("history") else "no"
    if m.get("history", "").startswith("caught by the check as built"):
        hist = "no — " + m["history"][:110]
    rows.append(f"| {name} | {m['property']} | {m.get('needs', '')[:150].replace('|', '/')} | {verdict} {codes} `{first}` | {hist} |")
table = ("| change | property | what it needs to manifest | detection by the property's quick tier (exit codes per seed, first signature) | machinery changed because of it |\n"
         "|---|---|---|---|---|\n" + "\n".join(rows))
d = open(os.path.join(ROOT, "DESIGN.md")).read()
d = re.sub(r"<!-- SEEDED-TABLE-BEGIN -->.*<!-- SEEDED-TABLE-END -->", "<!-- SEEDED-TABLE-BEGIN -->\n" + table + "\n<!-- SEEDED-TABLE-END -->", d, flags=re.S)
open(os.path.join(ROOT, "DESIGN.md"), "w").write(d)
print(len(rows), "rows")
