#!/bin/bash
# Run the pinned suite (BASELINE cmd) on each given commit of /repo in its own scratch worktree, in parallel.
# usage: tools/suite_per_commit.sh <sha>...     results: /tmp/suite-results/<sha>.txt
mkdir -p /tmp/suite-wt /tmp/suite-results
run_one() {
  sha=$1; wt=/tmp/suite-wt/$sha
  git -C /repo worktree add --detach -f "$wt" "$sha" >/dev/null 2>&1
  ( cd "$wt" && MPLBACKEND=Agg /venv/bin/python -m pytest -ra -q -p no:cacheprovider --timeout=900 --continue-on-collection-errors 2>&1 | tail -5 ) > /tmp/suite-results/$sha.txt
  git -C /repo worktree remove --force "$wt"
  echo "$sha $(tail -1 /tmp/suite-results/$sha.txt)"
}
export -f run_one
printf '%s\n' "$@" | xargs -P 16 -I{} bash -c 'run_one {}'
git -C /repo worktree prune
