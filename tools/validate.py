#!/usr/bin/env python3
"""validate MANIFEST.json and evidence/*.json against the given schemas (run with python3-vt, which has jsonschema)"""
import json, sys, glob, jsonschema
ok = True
m = json.load(open('/verif/MANIFEST.json')) if len(sys.argv) < 2 or sys.argv[1] != 'evidence' else None
if m is not None:
    jsonschema.validate(m, json.load(open('/root/.vp/MANIFEST.schema.json')))
    ids = [json.loads(l)['id'] for l in open('/verif/properties.jsonl')]
    claimed = [c['property_id'] for c in m['checks']]
    na = [n['property_id'] for n in m.get('not_applicable', [])]
    missing = [i for i in ids if i not in claimed and i not in na]
    print('manifest valid; claimed', len(claimed), 'not_applicable', len(na), 'unaccounted', missing)
    ok = ok and not missing
es = json.load(open('/root/.vp/EVIDENCE.schema.json'))
for f in sorted(glob.glob('/verif/evidence/*.json')):
    try:
        e = json.load(open(f)); jsonschema.validate(e, es)
        print(f, 'valid', e['tier'], e['coverage']['evaluations'], e['coverage']['distinct_nontrivial'], e['wall_s'], 's')
    except Exception as ex:
        ok = False; print(f, 'INVALID', str(ex)[:200])
sys.exit(0 if ok else 1)
